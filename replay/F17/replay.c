/* F17 replay: the exit pipe lands on descriptors 0/1 when the parent runs with stdin and stdout closed and none of the three
   streams creates a descriptor (all three are user handles).  process_start then installs the stdout handle on descriptor 1 in
   the child - over the child's only copy of the exit pipe's write end.  The parent closes its own copy after the start, so the
   exit pipe hangs up at once: reproc_poll reports REPROC_EVENT_EXIT while the child is still running (C09: "reports exactly the
   events that are true"; a zero-timeout wait would then block in waitpid).
   exit 0 = property held, 1 = violated.  The verdict travels through the exit status (descriptors 0-2 are in play). */
#define _GNU_SOURCE
#include <reproc/reproc.h>
#include <fcntl.h>
#include <signal.h>
#include <stdio.h>
#include <stdlib.h>
#include <string.h>
#include <unistd.h>

int main(void)
{
  int log = fcntl(2, F_DUPFD_CLOEXEC, 20); /* keep a way to talk */
  int h_in = open("/dev/null", O_RDONLY);
  int h_out = open("/dev/null", O_WRONLY);
  int h_err = open("/dev/null", O_WRONLY);
  h_in = fcntl(h_in, F_DUPFD, 10);
  h_out = fcntl(h_out, F_DUPFD, 11);
  h_err = fcntl(h_err, F_DUPFD, 12);
  if (log < 0 || h_in < 0 || h_out < 0 || h_err < 0) return 2;
  for (int i = 3; i < 10; i++) close(i);
  close(0);
  close(1);

  reproc_t *p = reproc_new();
  if (p == NULL) return 2;
  const char *argv[] = { "sleep", "3", NULL };
  reproc_options o = { 0 };
  o.redirect.in.type = REPROC_REDIRECT_HANDLE;
  o.redirect.in.handle = h_in;
  o.redirect.out.type = REPROC_REDIRECT_HANDLE;
  o.redirect.out.handle = h_out;
  o.redirect.err.type = REPROC_REDIRECT_HANDLE;
  o.redirect.err.handle = h_err;
  o.stop.first.action = REPROC_STOP_KILL;
  o.stop.first.timeout = 2000;
  int r = reproc_start(p, argv, o);
  if (r < 0) { dprintf(log, "start failed: %s\n", reproc_strerror(r)); return 2; }
  int pid = reproc_pid(p);

  reproc_event_source src = { p, REPROC_EVENT_EXIT, 0 };
  r = reproc_poll(&src, 1, 300);
  int alive = pid > 0 && kill(pid, 0) == 0;
  char path[64], st = '?';
  snprintf(path, sizeof path, "/proc/%d/stat", pid);
  FILE *f = fopen(path, "r");
  if (f) { char buf[256]; if (fgets(buf, sizeof buf, f)) { char *q = strrchr(buf, ')'); if (q && q[1]) st = q[2]; } fclose(f); }
  int bad = (r == 1 && (src.events & REPROC_EVENT_EXIT) && alive && st != 'Z');
  dprintf(log, "reproc_poll(EXIT, 300 ms) = %d events=%d; child %d alive=%d state=%c -> %s\n", r, src.events, pid, alive, st,
          bad ? "VIOLATED: exit event reported for a running child" : "held");
  reproc_destroy(p);
  return bad ? 1 : 0;
}
