#!/bin/sh
# usage: run.sh [checkout]  (default /repo) - builds the library from the checkout's sources into a temp dir; exit 0 = holds
set -e
checkout=$(cd "${1:-/repo}" && pwd)
here=$(cd "$(dirname "$0")" && pwd)
tmp=$(mktemp -d)
trap 'rm -rf "$tmp"' EXIT
cmake -G Ninja -S "$checkout" -B "$tmp/b" -DCMAKE_BUILD_TYPE=RelWithDebInfo >/dev/null
cmake --build "$tmp/b" >/dev/null
cc -O1 -g -I"$checkout/reproc/include" -I"$tmp/b/reproc/include" "$here/replay.c" "$tmp/b/reproc/lib/libreproc.a" -lpthread -o "$tmp/replay"
"$tmp/replay" </dev/null
