// Replay of finding F16 (C10.W2c): stderr is redirected to the parent's stderr (the default) while the parent runs with
// descriptor 2 closed. The property asks for the null device in that case. glibc's fileno(stderr) still answers 2, so the
// library hands "descriptor 2" to the child - which by then is whatever the library itself opened there (a pipe end).
#include <reproc/reproc.h>
#include <reproc/drain.h>
#include <stdio.h>
#include <stdlib.h>
#include <string.h>
#include <unistd.h>

int main(void)
{
  close(2);
  reproc_t *p = reproc_new();
  const char *argv[] = { "/bin/sh", "-c", "readlink /proc/self/fd/2 || echo CLOSED", NULL };
  reproc_options o = { 0 };            // defaults: stdin and stdout are pipes, stderr is the parent's stderr
  int r = reproc_start(p, argv, o);
  if (r < 0) { printf("start failed %d\n", r); return 2; }
  char *out = NULL;
  reproc_sink sink = reproc_sink_string(&out);
  reproc_drain(p, sink, sink);
  reproc_wait(p, 5000);
  reproc_destroy(p);
  if (out == NULL) out = strdup("");
  out[strcspn(out, "\n")] = 0;
  printf("child's descriptor 2 with the parent's descriptor 2 closed: %s\n", out);
  int ok = strcmp(out, "/dev/null") == 0;
  printf(ok ? "HOLDS: the null device\n" : "VIOLATED: not the null device\n");
  return ok ? 0 : 1;
}
