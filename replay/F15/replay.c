// Replay of finding F15 (C10.W7): fork-mode start while the parent runs with descriptor 0 closed. The child's end of the
// stdin pipe is then created on descriptor 0 itself; process_start leaves it there as the child's stdin, but the exit block
// of reproc_start, which also runs in the forked child, "closes the child's end" - i.e. descriptor 0.
#include <reproc/reproc.h>
#include <fcntl.h>
#include <stdio.h>
#include <string.h>
#include <sys/wait.h>
#include <unistd.h>

int main(void)
{
  close(0);
  reproc_t *p = reproc_new();
  reproc_options o = { 0 };
  o.fork = true;
  o.redirect.err.type = REPROC_REDIRECT_DISCARD;
  int r = reproc_start(p, NULL, o);
  if (r < 0) { fprintf(stderr, "start failed %d\n", r); return 2; }
  if (r == 0) {
    // forked child: is descriptor 0 an open, readable pipe end?  (reported through the exit status: the close-all step of the
    // fork leaves the child no other channel)
    int fl = fcntl(0, F_GETFL);
    _exit(fl < 0 ? 3 : ((fl & O_ACCMODE) == O_RDONLY ? 0 : 4));
  }
  int status = reproc_wait(p, 5000);
  reproc_destroy(p);
  printf("child's descriptor 0 after a fork-mode start with the parent's descriptor 0 closed: %s\n",
         status == 0 ? "open, read end (the stdin pipe)" : status == 3 ? "CLOSED" : "something else");
  printf(status == 0 ? "HOLDS\n" : "VIOLATED: the child's stdin is not the pipe the options ask for\n");
  return status == 0 ? 0 : 1;
}
