#define WINSTUB_IMPLEMENTATION
#include <windows.h>

#include <stdio.h>

#include "winstub.h"

// reproc internals normally provided by handle.windows.c.
const HANDLE HANDLE_INVALID = INVALID_HANDLE_VALUE;
HANDLE handle_destroy(HANDLE handle)
{
  (void) handle;
  return HANDLE_INVALID;
}

// Normally provided by error.windows.c.
const int REPROC_SIGKILL = 256 + 9;
const int REPROC_SIGTERM = 256 + 15;

static DWORD last_error = 0;
void SetLastError(DWORD error) { last_error = error; }
DWORD GetLastError(void) { return last_error; }

// --- guarded allocator ------------------------------------------------------

#define CANARY_SIZE 64
#define CANARY_BYTE 0xA5
#define MAX_LIVE 4096

static struct { unsigned char *p; size_t size; } live[MAX_LIVE];
int winstub_overflows = 0;

static void *guarded(size_t size, bool zero)
{
  unsigned char *p = (malloc)(size + CANARY_SIZE);
  if (p == NULL) {
    return NULL;
  }
  if (zero) {
    memset(p, 0, size);
  } else {
    memset(p, 0xCD, size);
  }
  memset(p + size, CANARY_BYTE, CANARY_SIZE);
  for (int i = 0; i < MAX_LIVE; i++) {
    if (live[i].p == NULL) {
      live[i].p = p;
      live[i].size = size;
      return p;
    }
  }
  fprintf(stderr, "winstub: too many live allocations\n");
  abort();
}

void *winstub_calloc(size_t n, size_t size) { return guarded(n * size, true); }
void *winstub_malloc(size_t size) { return guarded(size, false); }

void winstub_free(void *p)
{
  if (p == NULL) {
    return;
  }
  for (int i = 0; i < MAX_LIVE; i++) {
    if (live[i].p == p) {
      for (size_t j = 0; j < CANARY_SIZE; j++) {
        if (live[i].p[live[i].size + j] != CANARY_BYTE) {
          if (winstub_overflows < 3) {
            fprintf(stderr,
                    "winstub: buffer of %zu bytes was written past its end "
                    "(offset +%zu)\n",
                    live[i].size, j);
          }
          winstub_overflows++;
          break;
        }
      }
      live[i].p = NULL;
      (free)(p);
      return;
    }
  }
  // Not one of ours (e.g. obtained from strdup): hand to the real allocator.
  (free)(p);
}

// --- simulated parent environment ------------------------------------------

static wchar_t *parent_env = NULL;

size_t winstub_block_size(const wchar_t *block)
{
  size_t n = 0;
  while (block[n] != L'\0') {
    n += wcslen(block + n) + 1;
  }
  return n + 1;
}

void winstub_set_parent_env(const wchar_t *block)
{
  size_t n = winstub_block_size(block);
  (free)(parent_env);
  parent_env = (malloc)(n * sizeof(wchar_t));
  memcpy(parent_env, block, n * sizeof(wchar_t));
}

LPWCH GetEnvironmentStringsW(void)
{
  // Like the real API: returns a private snapshot of the *current* block that
  // the caller must release with FreeEnvironmentStringsW.
  const wchar_t *block = parent_env ? parent_env : L"\0";
  size_t n = winstub_block_size(block);
  wchar_t *copy = (malloc)(n * sizeof(wchar_t));
  memcpy(copy, block, n * sizeof(wchar_t));
  return copy;
}

BOOL FreeEnvironmentStringsW(LPWCH block)
{
  (free)(block);
  return TRUE;
}

// --- process creation -------------------------------------------------------

wchar_t *winstub_command_line = NULL;
wchar_t *winstub_env = NULL;
size_t winstub_env_size = 0;
int winstub_create_calls = 0;

BOOL CreateProcessW(LPCWSTR application, LPWSTR command_line,
                    LPSECURITY_ATTRIBUTES process_attributes,
                    LPSECURITY_ATTRIBUTES thread_attributes, BOOL inherit,
                    DWORD flags, LPVOID environment, LPCWSTR directory,
                    LPSTARTUPINFOW startup_info, LPPROCESS_INFORMATION info)
{
  (void) application;
  (void) process_attributes;
  (void) thread_attributes;
  (void) inherit;
  (void) flags;
  (void) directory;
  (void) startup_info;

  winstub_create_calls++;

  (free)(winstub_command_line);
  (free)(winstub_env);
  winstub_command_line = NULL;
  winstub_env = NULL;
  winstub_env_size = 0;

  if (command_line != NULL) {
    size_t n = wcslen(command_line) + 1;
    winstub_command_line = (malloc)(n * sizeof(wchar_t));
    memcpy(winstub_command_line, command_line, n * sizeof(wchar_t));
  }

  if (environment != NULL) {
    winstub_env_size = winstub_block_size(environment);
    winstub_env = (malloc)(winstub_env_size * sizeof(wchar_t));
    memcpy(winstub_env, environment, winstub_env_size * sizeof(wchar_t));
  }

  info->hProcess = (HANDLE)(intptr_t) 0x1234;
  info->hThread = (HANDLE)(intptr_t) 0x5678;
  info->dwProcessId = 42;
  info->dwThreadId = 43;
  return TRUE;
}

BOOL SetHandleInformation(HANDLE h, DWORD mask, DWORD flags)
{
  (void) h;
  (void) mask;
  (void) flags;
  return TRUE;
}

BOOL InitializeProcThreadAttributeList(LPPROC_THREAD_ATTRIBUTE_LIST list,
                                       DWORD count, DWORD flags, PSIZE_T size)
{
  (void) count;
  (void) flags;
  if (list == NULL) {
    *size = 48;
    SetLastError(ERROR_INSUFFICIENT_BUFFER);
    return FALSE;
  }
  memset(list, 0, *size);
  return TRUE;
}

BOOL UpdateProcThreadAttribute(LPPROC_THREAD_ATTRIBUTE_LIST list, DWORD flags,
                               DWORD_PTR attribute, PVOID value, SIZE_T size,
                               PVOID previous, PSIZE_T return_size)
{
  (void) list;
  (void) flags;
  (void) attribute;
  (void) value;
  (void) size;
  (void) previous;
  (void) return_size;
  return TRUE;
}

void DeleteProcThreadAttributeList(LPPROC_THREAD_ATTRIBUTE_LIST list)
{
  (void) list;
}

UINT SetErrorMode(UINT mode)
{
  (void) mode;
  return 0;
}

DWORD GetProcessId(HANDLE process)
{
  (void) process;
  return 42;
}

DWORD WaitForSingleObject(HANDLE handle, DWORD timeout)
{
  (void) handle;
  (void) timeout;
  return 0;
}

BOOL GetExitCodeProcess(HANDLE process, LPDWORD status)
{
  (void) process;
  *status = 0;
  return TRUE;
}

BOOL GenerateConsoleCtrlEvent(DWORD event, DWORD group)
{
  (void) event;
  (void) group;
  return TRUE;
}

BOOL TerminateProcess(HANDLE process, UINT status)
{
  (void) process;
  (void) status;
  return TRUE;
}

// --- UTF-8 -> "UTF-16" (one wchar_t per code point on this platform) --------

int MultiByteToWideChar(UINT code_page, DWORD flags, LPCCH string, int size,
                        LPWSTR wstring, int wsize)
{
  (void) code_page;
  (void) flags;

  if (string == NULL || size == 0 || wsize < 0) {
    SetLastError(ERROR_INVALID_PARAMETER);
    return 0;
  }

  size_t n = size < 0 ? strlen(string) + 1 : (size_t) size;
  int written = 0;

  for (size_t i = 0; i < n;) {
    unsigned char c = (unsigned char) string[i];
    wchar_t cp = 0;
    size_t len = 0;
    if (c < 0x80) {
      cp = c;
      len = 1;
    } else if ((c & 0xE0) == 0xC0) {
      cp = c & 0x1F;
      len = 2;
    } else if ((c & 0xF0) == 0xE0) {
      cp = c & 0x0F;
      len = 3;
    } else if ((c & 0xF8) == 0xF0) {
      cp = c & 0x07;
      len = 4;
    } else {
      SetLastError(ERROR_NO_UNICODE_TRANSLATION);
      return 0;
    }
    if (i + len > n) {
      SetLastError(ERROR_NO_UNICODE_TRANSLATION);
      return 0;
    }
    for (size_t k = 1; k < len; k++) {
      unsigned char cc = (unsigned char) string[i + k];
      if ((cc & 0xC0) != 0x80) {
        SetLastError(ERROR_NO_UNICODE_TRANSLATION);
        return 0;
      }
      cp = (wchar_t)((cp << 6) | (cc & 0x3F));
    }
    i += len;

    if (wsize != 0) {
      if (written >= wsize) {
        SetLastError(ERROR_INSUFFICIENT_BUFFER);
        return 0;
      }
      wstring[written] = cp;
    }
    written++;
  }

  return written;
}

// --- independent splitter ---------------------------------------------------

static bool is_blank(wchar_t c)
{
  return c == L' ' || c == L'\t' || c == L'\n' || c == L'\v';
}

int winstub_split(const wchar_t *s, char **out, int max)
{
  int argc = 0;
  size_t len = wcslen(s);
  size_t i = 0;

  for (;;) {
    while (i < len && is_blank(s[i])) {
      i++;
    }
    if (i >= len) {
      break;
    }

    char *arg = (malloc)(len + 1);
    size_t n = 0;
    bool in_quotes = false;

    while (i < len) {
      size_t backslashes = 0;
      while (i < len && s[i] == L'\\') {
        backslashes++;
        i++;
      }
      if (i < len && s[i] == L'"') {
        for (size_t k = 0; k < backslashes / 2; k++) {
          arg[n++] = '\\';
        }
        if (backslashes % 2 == 1) {
          arg[n++] = '"';
        } else {
          in_quotes = !in_quotes;
        }
        i++;
        continue;
      }
      for (size_t k = 0; k < backslashes; k++) {
        arg[n++] = '\\';
      }
      if (i >= len) {
        break;
      }
      if (!in_quotes && is_blank(s[i])) {
        break;
      }
      arg[n++] = (char) s[i++];
    }

    arg[n] = '\0';
    if (argc < max) {
      out[argc] = arg;
    } else {
      (free)(arg);
    }
    argc++;
  }

  return argc;
}
