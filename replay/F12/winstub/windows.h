// Minimal stand-in for <windows.h> so that reproc's process.windows.c and
// utf.windows.c can be compiled and exercised on Linux. Only what those two
// files need is provided. Everything is implemented in winstub.c.
#pragma once

#include <limits.h>
#include <stdbool.h>
#include <stddef.h>
#include <stdint.h>
#include <stdlib.h>
#include <string.h>
#include <wchar.h>

typedef void *HANDLE;
typedef void *LPVOID;
typedef void *PVOID;
typedef unsigned int DWORD; // 32 bit, like on Windows
typedef DWORD *LPDWORD;
typedef int BOOL;
typedef unsigned short WORD;
typedef unsigned int UINT;
typedef unsigned char BYTE;
typedef BYTE *LPBYTE;
typedef size_t SIZE_T;
typedef SIZE_T *PSIZE_T;
typedef uintptr_t DWORD_PTR;
typedef wchar_t WCHAR;
typedef wchar_t *LPWSTR;
typedef wchar_t *LPWCH;
typedef const wchar_t *LPCWSTR;
typedef const char *LPCCH;

#define TRUE 1
#define FALSE 0

#define INVALID_HANDLE_VALUE ((HANDLE)(intptr_t) -1)

#define CREATE_NEW_PROCESS_GROUP 0x00000200
#define CREATE_UNICODE_ENVIRONMENT 0x00000400
#define EXTENDED_STARTUPINFO_PRESENT 0x00080000

#define ERROR_INVALID_PARAMETER 87
#define ERROR_NOT_ENOUGH_MEMORY 8
#define ERROR_CALL_NOT_IMPLEMENTED 120
#define ERROR_INSUFFICIENT_BUFFER 122
#define ERROR_FILENAME_EXCED_RANGE 206
#define ERROR_NO_UNICODE_TRANSLATION 1113

#define HANDLE_FLAG_INHERIT 0x00000001
#define STARTF_USESHOWWINDOW 0x00000001
#define STARTF_USESTDHANDLES 0x00000100
#define SW_HIDE 0
#define SEM_NOGPFAULTERRORBOX 0x0002
#define PROC_THREAD_ATTRIBUTE_HANDLE_LIST 0x00020002
#define INFINITE 0xFFFFFFFF
#define WAIT_FAILED ((DWORD) 0xFFFFFFFF)
#define CTRL_BREAK_EVENT 1
#define CP_UTF8 65001
#define MB_ERR_INVALID_CHARS 0x00000008

typedef struct _PROC_THREAD_ATTRIBUTE_LIST *LPPROC_THREAD_ATTRIBUTE_LIST;

typedef struct _SECURITY_ATTRIBUTES {
  DWORD nLength;
  LPVOID lpSecurityDescriptor;
  BOOL bInheritHandle;
} SECURITY_ATTRIBUTES, *LPSECURITY_ATTRIBUTES;

typedef struct _STARTUPINFOW {
  DWORD cb;
  LPWSTR lpReserved;
  LPWSTR lpDesktop;
  LPWSTR lpTitle;
  DWORD dwX, dwY, dwXSize, dwYSize, dwXCountChars, dwYCountChars;
  DWORD dwFillAttribute;
  DWORD dwFlags;
  WORD wShowWindow;
  WORD cbReserved2;
  LPBYTE lpReserved2;
  HANDLE hStdInput;
  HANDLE hStdOutput;
  HANDLE hStdError;
} STARTUPINFOW, *LPSTARTUPINFOW;

typedef struct _STARTUPINFOEXW {
  STARTUPINFOW StartupInfo;
  LPPROC_THREAD_ATTRIBUTE_LIST lpAttributeList;
} STARTUPINFOEXW;

typedef struct _PROCESS_INFORMATION {
  HANDLE hProcess;
  HANDLE hThread;
  DWORD dwProcessId;
  DWORD dwThreadId;
} PROCESS_INFORMATION, *LPPROCESS_INFORMATION;

void SetLastError(DWORD error);
DWORD GetLastError(void);
BOOL SetHandleInformation(HANDLE h, DWORD mask, DWORD flags);
BOOL InitializeProcThreadAttributeList(LPPROC_THREAD_ATTRIBUTE_LIST list,
                                       DWORD count, DWORD flags, PSIZE_T size);
BOOL UpdateProcThreadAttribute(LPPROC_THREAD_ATTRIBUTE_LIST list, DWORD flags,
                               DWORD_PTR attribute, PVOID value, SIZE_T size,
                               PVOID previous, PSIZE_T return_size);
void DeleteProcThreadAttributeList(LPPROC_THREAD_ATTRIBUTE_LIST list);
LPWCH GetEnvironmentStringsW(void);
BOOL FreeEnvironmentStringsW(LPWCH block);
UINT SetErrorMode(UINT mode);
BOOL CreateProcessW(LPCWSTR application, LPWSTR command_line,
                    LPSECURITY_ATTRIBUTES process_attributes,
                    LPSECURITY_ATTRIBUTES thread_attributes, BOOL inherit,
                    DWORD flags, LPVOID environment, LPCWSTR directory,
                    LPSTARTUPINFOW startup_info, LPPROCESS_INFORMATION info);
DWORD GetProcessId(HANDLE process);
DWORD WaitForSingleObject(HANDLE handle, DWORD timeout);
BOOL GetExitCodeProcess(HANDLE process, LPDWORD status);
BOOL GenerateConsoleCtrlEvent(DWORD event, DWORD group);
BOOL TerminateProcess(HANDLE process, UINT status);
int MultiByteToWideChar(UINT code_page, DWORD flags, LPCCH string, int size,
                        LPWSTR wstring, int wsize);

// Guarded allocator: every allocation made by the library sources is followed
// by a canary region that is verified when the buffer is released, so a write
// past the end of a computed buffer is detected deterministically.
void *winstub_calloc(size_t n, size_t size);
void *winstub_malloc(size_t size);
void winstub_free(void *p);

#ifndef WINSTUB_IMPLEMENTATION
  #define calloc(n, size) winstub_calloc((n), (size))
  #define malloc(size) winstub_malloc((size))
  #define free(p) winstub_free((p))
#endif
