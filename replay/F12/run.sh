#!/bin/sh
# usage: run.sh [checkout]   (default /repo); exit 0 = empty argument survives, 1 = lost
set -e
checkout=$(cd "${1:-/repo}" && pwd)
here=$(cd "$(dirname "$0")" && pwd)
tmp=$(mktemp -d)
trap 'rm -rf "$tmp"' EXIT
${CC:-cc} -std=gnu99 -O1 -g -w -D_WIN32 -DREPROC_MULTITHREADED -I"$here/winstub" -I"$here" \
  -I"$checkout/reproc/include" -I"$checkout/reproc/src" \
  "$checkout/reproc/src/process.windows.c" "$checkout/reproc/src/utf.windows.c" "$here/winstub.c" "$here/replay.c" -o "$tmp/replay"
"$tmp/replay"
