// Control/observation interface of the Windows stub (see winstub.c).
#pragma once

#include <stdbool.h>
#include <stddef.h>
#include <wchar.h>

// Replace the simulated parent environment block. `block` is a sequence of
// NUL-terminated entries closed by an extra NUL (e.g. L"A=1\0B=2\0").
void winstub_set_parent_env(const wchar_t *block);

// Command line / environment block handed to the last CreateProcessW call.
// `winstub_env_size` is the number of wchar_t in the block including the
// closing NUL.
extern wchar_t *winstub_command_line;
extern wchar_t *winstub_env;
extern size_t winstub_env_size;
extern int winstub_create_calls;

// Number of guarded buffers whose canary was found damaged on release.
extern int winstub_overflows;

// Size (in wchar_t, including closing NUL) of a NUL-separated block.
size_t winstub_block_size(const wchar_t *block);

// Independent implementation of the Windows argument splitting rules
// (2n backslashes + quote -> n backslashes, quote toggles; 2n+1 backslashes +
// quote -> n backslashes + literal quote; other backslashes literal; blanks
// outside quotes separate arguments). Returns number of arguments, stores up
// to `max` malloc'ed narrow strings in `out`.
int winstub_split(const wchar_t *command_line, char **out, int max);
