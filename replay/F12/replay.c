// Replay of finding F12 (C18.Z6): an empty argument is not quoted by argv_join, so it vanishes from the command line.
// Built on Linux from the repository's own process.windows.c / utf.windows.c against a declaration-only <windows.h> stub;
// the command line handed to CreateProcessW is split with the Windows argument rules (winstub_split).
#include <stdio.h>
#include <stdlib.h>
#include <string.h>
#include <reproc/reproc.h>
#include "process.h"
#include "winstub.h"

int main(void)
{
  const char *argv[] = { "prog", "", "after", NULL };
  struct process_options options = { 0 };
  options.env.behavior = REPROC_ENV_EXTEND;
  options.handle.in = (void *) 0x10;
  options.handle.out = (void *) 0x20;
  options.handle.err = (void *) 0x30;
  options.handle.exit = (void *) 0x40;
  winstub_set_parent_env(L"A=1\0");
  process_type process = NULL;
  int r = process_start(&process, argv, options);
  if (r < 0 || winstub_command_line == NULL) {
    printf("process_start failed: %d\n", r);
    return 2;
  }
  char *out[8] = { 0 };
  int n = winstub_split(winstub_command_line, out, 8);
  printf("argv = {<prog> <> <after>}  command line = <%ls>  splits into %d arguments:", winstub_command_line, n);
  for (int i = 0; i < n; i++) printf(" <%s>", out[i]);
  printf("\n");
  int ok = n == 3 && strcmp(out[1], "") == 0 && strcmp(out[2], "after") == 0;
  printf(ok ? "HOLDS: the empty argument survives\n" : "VIOLATED: the empty argument is lost\n");
  return ok ? 0 : 1;
}
