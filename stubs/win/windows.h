/* Minimal declarations-only stand-in for <windows.h>, so that reproc's Windows sources can be PARSED on Linux by the
   fact extractor. No behaviour is stubbed: only types, constants and prototypes. */
#pragma once
#include <stddef.h>
#include <stdint.h>
#include <string.h>
#include <wchar.h>
#include <limits.h>

typedef void *HANDLE;
typedef void *LPVOID;
typedef void *PVOID;
typedef const void *LPCVOID;
typedef unsigned long DWORD;
typedef DWORD *LPDWORD;
typedef int BOOL;
typedef unsigned int UINT;
typedef unsigned short WORD;
typedef unsigned char BYTE;
typedef BYTE *LPBYTE;
typedef size_t SIZE_T;
typedef SIZE_T *PSIZE_T;
typedef uintptr_t DWORD_PTR;
typedef wchar_t WCHAR;
typedef WCHAR *LPWSTR;
typedef const WCHAR *LPCWSTR;
typedef WCHAR *LPWCH;
typedef char *LPSTR;
typedef const char *LPCSTR;
typedef const char *LPCCH;
typedef long LONG;
typedef struct _PROC_THREAD_ATTRIBUTE_LIST *LPPROC_THREAD_ATTRIBUTE_LIST;

#define INVALID_HANDLE_VALUE ((HANDLE)(intptr_t) -1)
#define TRUE 1
#define FALSE 0
#define INFINITE 0xFFFFFFFF
#define CP_ACP 0
#define CP_OEMCP 1
#define CP_THREAD_ACP 3
#define CP_UTF7 65000
#define CP_UTF8 65001
#define MB_ERR_INVALID_CHARS 0x00000008
#define CREATE_NEW_PROCESS_GROUP 0x00000200
#define CREATE_UNICODE_ENVIRONMENT 0x00000400
#define EXTENDED_STARTUPINFO_PRESENT 0x00080000
#define STARTF_USESTDHANDLES 0x00000100
#define STARTF_USESHOWWINDOW 0x00000001
#define SW_HIDE 0
#define HANDLE_FLAG_INHERIT 0x00000001
#define ERROR_NOT_ENOUGH_MEMORY 8L
#define ERROR_INSUFFICIENT_BUFFER 122L
#define ERROR_INVALID_PARAMETER 87L
#define ERROR_BROKEN_PIPE 109L
#define ERROR_CALL_NOT_IMPLEMENTED 120L
#define PROC_THREAD_ATTRIBUTE_HANDLE_LIST 0x00020002
#define CTRL_BREAK_EVENT 1
#define WAIT_OBJECT_0 0
#define WAIT_TIMEOUT 258L
#define WAIT_FAILED 0xFFFFFFFF
#define SEM_FAILCRITICALERRORS 0x0001
#define SEM_NOGPFAULTERRORBOX 0x0002
#define STILL_ACTIVE 259
#define WINAPI

typedef struct _SECURITY_ATTRIBUTES {
  DWORD nLength;
  LPVOID lpSecurityDescriptor;
  BOOL bInheritHandle;
} SECURITY_ATTRIBUTES, *LPSECURITY_ATTRIBUTES;

typedef struct _STARTUPINFOW {
  DWORD cb;
  LPWSTR lpReserved;
  LPWSTR lpDesktop;
  LPWSTR lpTitle;
  DWORD dwX, dwY, dwXSize, dwYSize, dwXCountChars, dwYCountChars, dwFillAttribute, dwFlags;
  WORD wShowWindow, cbReserved2;
  LPBYTE lpReserved2;
  HANDLE hStdInput, hStdOutput, hStdError;
} STARTUPINFOW, *LPSTARTUPINFOW;

typedef struct _STARTUPINFOEXW {
  STARTUPINFOW StartupInfo;
  LPPROC_THREAD_ATTRIBUTE_LIST lpAttributeList;
} STARTUPINFOEXW, *LPSTARTUPINFOEXW;

typedef struct _PROCESS_INFORMATION {
  HANDLE hProcess, hThread;
  DWORD dwProcessId, dwThreadId;
} PROCESS_INFORMATION, *LPPROCESS_INFORMATION;

DWORD GetLastError(void);
void SetLastError(DWORD);
BOOL CloseHandle(HANDLE);
BOOL SetHandleInformation(HANDLE, DWORD, DWORD);
BOOL InitializeProcThreadAttributeList(LPPROC_THREAD_ATTRIBUTE_LIST, DWORD, DWORD, PSIZE_T);
BOOL UpdateProcThreadAttribute(LPPROC_THREAD_ATTRIBUTE_LIST, DWORD, DWORD_PTR, PVOID, SIZE_T, PVOID, PSIZE_T);
void DeleteProcThreadAttributeList(LPPROC_THREAD_ATTRIBUTE_LIST);
LPWCH GetEnvironmentStringsW(void);
BOOL FreeEnvironmentStringsW(LPWCH);
BOOL CreateProcessW(LPCWSTR, LPWSTR, LPSECURITY_ATTRIBUTES, LPSECURITY_ATTRIBUTES, BOOL, DWORD, LPVOID, LPCWSTR, LPSTARTUPINFOW,
                    LPPROCESS_INFORMATION);
int MultiByteToWideChar(UINT, DWORD, LPCCH, int, LPWSTR, int);
DWORD GetProcessId(HANDLE);
DWORD WaitForSingleObject(HANDLE, DWORD);
BOOL GetExitCodeProcess(HANDLE, LPDWORD);
BOOL GenerateConsoleCtrlEvent(DWORD, DWORD);
BOOL TerminateProcess(HANDLE, UINT);
UINT SetErrorMode(UINT);
