#!/bin/sh
# Builds the LibTooling extractor from files on disk (offline). ~25 s.
set -e
cd "$(dirname "$0")"
mkdir -p build
if [ ! -x build/extract ] || [ tools/extract.cc -nt build/extract ]; then
  clang++ $(llvm-config-14 --cxxflags) -fno-rtti -O1 tools/extract.cc -o build/extract \
    /usr/lib/llvm-14/lib/libclang-cpp.so.14 /usr/lib/llvm-14/lib/libLLVM-14.so
fi
echo "extractor ready: build/extract"
