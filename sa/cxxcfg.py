"""The reproc++ configuration: reproc.cpp plus a witness TU that instantiates the header templates."""
import os
import subprocess
from .facts import Program, extract_units, AnalysisBroken, VERIF, work_dir


def flags(root):
    return ["-std=c++11", "-I" + os.path.join(root, "reproc++", "include"), "-I" + os.path.join(root, "reproc", "include"),
            "-Wno-everything"]


def load(root):
    src = os.path.join(root, "reproc++", "src", "reproc.cpp")
    if not os.path.exists(src):
        raise AnalysisBroken("reproc++/src/reproc.cpp not found")
    wd = os.path.join(work_dir(), "cxx-%d" % os.getpid())
    os.makedirs(wd, exist_ok=True)
    wit = os.path.join(wd, "witness_instantiate.cpp")
    with open(os.path.join(VERIF, "witness", "instantiate.cpp.in")) as fh:
        txt = fh.read()
    with open(wit, "w") as fh:
        fh.write(txt)
    try:
        docs = extract_units([src, wit], flags(root), "cxx", root)
    finally:
        try:
            os.unlink(wit)
            os.rmdir(wd)
        except OSError:
            pass
    prog = Program("cxx", root).load(docs)
    return prog


def syntax_check(root, text, name):
    """compile a generated witness TU with -fsyntax-only; returns (ok, stderr)"""
    wd = os.path.join(work_dir(), "cxxw-%d" % os.getpid())
    os.makedirs(wd, exist_ok=True)
    p = os.path.join(wd, name)
    with open(p, "w") as fh:
        fh.write(text)
    try:
        r = subprocess.run(["clang++", "-fsyntax-only", "-ferror-limit=0"] + flags(root) + [p], stdout=subprocess.PIPE,
                           stderr=subprocess.PIPE, text=True)
    finally:
        try:
            os.unlink(p)
            os.rmdir(wd)
        except OSError:
            pass
    return r.returncode == 0, r.stderr
