"""E-ABS: forward abstract interpretation over clang CFGs with disjunctive
(path-sensitive) states over finite domains, inlining internal callees and
using models for libc.

Nothing is executed and no solver is involved: values are finite sets of
atoms, states are finite maps, fixpoints are reached by exhaustion of the
finite state space (with a cap that turns into AnalysisBroken, never a
verdict).

Atoms
  int k           a tracked constant (k in K)
  'NEG' / 'POS'   some negative / positive integer not in K
  'NULL'          null pointer
  'PTR'           some non-null pointer about which nothing is known
  ('addr', cell)  pointer to an abstract cell
  ('fd', site, n) a descriptor (>= 0) produced at call site `site`
  ('mem', site, n) heap block produced at `site`
  ('ext', tag)    a value (>= 0 / non-null) that belongs to somebody else
  ('fn', name)    function designator
  ('sym', tag)    opaque symbolic value (e.g. a signal mask)
Cells
  ('v', gdid)           variable
  ('f', base, name)     field
  ('i', base, k|'*')    array element
  ('d', cell)           the object pointed to by the (input) pointer stored in cell
  ('ret', fn, nid), ('lit', fn, nid)   temporaries of aggregate type
  ('g', name)           a named global abstraction (errno, environ, ...)
"""
from .facts import AnalysisBroken, strip, expr_str, CALL_KINDS, TRANSPARENT

INF = float("inf")
import re as _re
_ARR = _re.compile(r"\[(\d+)\]$")


def is_int(a):
    return isinstance(a, int) and not isinstance(a, bool)


def atom_interval(a):
    if is_int(a):
        return (a, a)
    if a == "NEG":
        return (-INF, -1)
    if a == "POS":
        return (1, INF)
    if a == "NULL":
        return (0, 0)
    if a == "PTR":
        return (1, INF)
    if isinstance(a, tuple):
        if a[0] in ("fd", "ext"):
            return (0, INF)
        if a[0] == "uh":
            return (1, INF)      # a user supplied handle that passed the "is set" (non-zero) validation
        if a[0] == "h":
            return (3, INF)      # some descriptor number above the standard streams
        if a[0] in ("addr", "mem", "fn", "str", "pid"):
            return (1, INF)
        if a[0] == "sym":
            return (-INF, INF)
    return (-INF, INF)


class State:
    __slots__ = ("mem", "tmp", "res", "mon", "_frozen")

    def __init__(self, mem=None, tmp=None, res=None, mon=None):
        self.mem = mem if mem is not None else {}
        self.tmp = tmp if tmp is not None else {}
        self.res = res if res is not None else {}
        self.mon = mon if mon is not None else {}
        self._frozen = None

    def copy(self):
        return State(dict(self.mem), dict(self.tmp), dict(self.res), dict(self.mon))

    def frozen(self):
        if self._frozen is None:
            self._frozen = (_fz(self.mem), _fz(self.tmp), _fz(self.res), _fz(self.mon))
        return self._frozen

    def __hash__(self):
        return hash(self.frozen())

    def __eq__(self, o):
        return self.frozen() == o.frozen()

    # functional updates
    def set_mem(self, cell, val):
        s = self.copy()
        s.mem[cell] = val
        return s

    def set_mon(self, k, v):
        s = self.copy()
        s.mon[k] = v
        return s

    def set_res(self, k, v):
        s = self.copy()
        s.res[k] = v
        return s


def _fz(d):
    return frozenset(d.items())


_base_memo = {}


def cell_base(cell):
    """root of a cell path"""
    b = _base_memo.get(cell)
    if b is None:
        b = cell
        while b[0] in ("f", "i"):
            b = b[1]
        if len(_base_memo) < 200000:
            _base_memo[cell] = b
    return b


def cell_has_prefix(cell, prefix):
    while True:
        if cell == prefix:
            return True
        if cell[0] in ("f", "i"):
            cell = cell[1]
        else:
            return False


def cell_suffix(cell, prefix):
    """path (list of ('f',name)/('i',k)) from prefix down to cell"""
    path = []
    while cell != prefix:
        path.append((cell[0], cell[2]))
        cell = cell[1]
    path.reverse()
    return path


def cell_join(prefix, path):
    c = prefix
    for (k, x) in path:
        c = (k, c, x)
    return c


def cell_str(cell):
    k = cell[0]
    if k == "v":
        return "var#%s" % (cell[1],)
    if k == "f":
        return "%s.%s" % (cell_str(cell[1]), cell[2])
    if k == "i":
        return "%s[%s]" % (cell_str(cell[1]), cell[2])
    if k == "d":
        return "*(%s)" % cell_str(cell[1])
    return str(cell)


class Frame:
    def __init__(self, fn, depth):
        self.fn = fn
        self.depth = depth
        self.key = fn.name if depth == 0 else fn.name  # recursion is cut, so names are unique on the stack


class Result:
    def __init__(self):
        self.exits = []      # (state, retval)
        self.aborts = []     # (state, node, fn) paths ending in noreturn calls
        self.events = []


class Interp:
    MAX_STATES = 6000
    PURE = ("__errno_location", "strlen", "abs", "strchr", "memcpy", "strcpy", "memset", "<indirect>")

    def __init__(self, prog, models=None, K=None, overrides=None, no_inline=(), max_depth=12):
        self.prog = prog
        self.models = models or {}
        self.overrides = overrides or {}     # internal function name -> model (instead of inlining)
        self.no_inline = set(no_inline)
        self.max_depth = max_depth
        self.keep_live = set()
        self.widen = True
        self.log_loads = False
        self.loads = set()
        self.events = []
        self.hooks_call = []                 # f(interp, fn, node, name, args, state) -> None | list[(state, val)]
        self.hooks_store = []                # f(interp, fn, node, cell, val, state) -> state|None
        self.hooks_assert = []
        self.hooks_cmp = []                  # f(interp, fn, node, op, va, vb, st)
        self.hooks_cast = []                 # f(interp, fn, node, from_type, to_type, value, st)
        self.hooks_arith = []                # f(interp, fn, node, op, result, st): every evaluation of an arithmetic operator
        self.site_counter = {}
        self.K = sorted(K) if K is not None else self._default_K()
        self.Kset = set(self.K)
        self.TOP_INT = frozenset(self.K) | {"NEG", "POS"}
        self.stack = []
        self.callsites = []
        self.stats = {"blocks": 0, "states": 0, "calls_inlined": 0, "calls_modelled": 0, "max_states_block": 0}
        self.name_of_did = {}
        self._locals_cache = {}
        self._live_cache = {}
        self._elem_cache = {}
        self._arm_cache = {}
        self._root_cache = {}
        self._pos_lo = None
        self._neg_hi = None
        self._klen = -1

    # ------------------------------------------------------------- values
    def _default_K(self):
        K = {-3, -2, -1, 0, 1, 2, 3, 4, 9, 15, 22, 34}       # 9 / 15: SIGKILL / SIGTERM
        for v in self.prog.consts.values():
            K.add(v)
        for v in self.prog.enumerators.values():
            K.add(v)
        # constants the code compares against / switches on / assigns or returns literally
        for F in self.prog.funcs_all:
            for n in F.nodes.values():
                k = n["k"]
                if k == "BinaryOperator" and n["op"] in ("==", "!=", "<", "<=", ">", ">=", "="):
                    for c in n["c"]:
                        v = c.get("val")
                        if is_int(v) and abs(v) <= (1 << 21):
                            K.add(v)
                elif k == "CaseStmt" and is_int(n.get("caseval")):
                    K.add(n["caseval"])
                elif k in ("ReturnStmt", "VarDecl") and n.get("c"):
                    v = n["c"][0].get("val")
                    if is_int(v) and abs(v) <= (1 << 21):
                        K.add(v)
        return K

    def abs_int(self, v):
        if v in self.Kset:
            return v
        return "NEG" if v < 0 else "POS"

    def from_interval(self, lo, hi):
        out = set()
        for k in self.K:
            if lo <= k <= hi:
                out.add(k)
        if lo < 0:
            out.add("NEG")
        if hi > 0:
            out.add("POS")
        return frozenset(out)

    def top_for_type(self, ct, cell=None):
        ct = ct or "int"
        if is_ptr_type(ct):
            if cell is not None:
                return frozenset({"NULL", ("addr", ("d", cell))})
            return frozenset({"NULL", "PTR"})
        if ct in ("_Bool", "bool"):
            return frozenset({0, 1})
        return self.TOP_INT

    def nonneg(self):
        return self.from_interval(0, INF)

    def pos(self):
        return self.from_interval(1, INF)

    def neg(self):
        return self.from_interval(-INF, -1)

    def truth(self, val):
        """(may be true, may be false)"""
        t = f = False
        for a in val:
            lo, hi = atom_interval(a)
            if lo <= 0 <= hi:
                f = True
            if lo < 0 or hi > 0:
                t = True
            if isinstance(a, tuple) and a[0] in ("fd", "ext"):
                t = f = True
        return t, f

    def ival(self, a):
        """interval of an atom; the residual classes start beyond the run of tracked constants around zero"""
        if a == "POS":
            if self._pos_lo is None or self._klen != len(self.K):
                self._klen = len(self.K)
                p = 1
                while p in self.Kset:
                    p += 1
                self._pos_lo = p
                q = -1
                while q in self.Kset:
                    q -= 1
                self._neg_hi = q
            return (self._pos_lo, INF)
        if a == "NEG":
            self.ival("POS")
            return (-INF, self._neg_hi)
        return atom_interval(a)

    def cmp_atoms(self, op, a, b):
        """(may hold, may fail) for `a op b`"""
        la, ha = self.ival(a)
        lb, hb = self.ival(b)
        single = la == ha and lb == hb
        if op == "==":
            may = not (ha < lb or hb < la)
            # the residual classes contain no tracked constant
            if (a in ("NEG", "POS") and is_int(b) and b in self.Kset) or (b in ("NEG", "POS") and is_int(a) and a in self.Kset):
                may = False
            fail = not (single and la == lb)
            if a == b and isinstance(a, tuple) and a[0] in ("fd", "pid", "mem", "addr", "sym", "h") and "many" not in a:
                fail = False    # one and the same runtime value
            if a != b and ((isinstance(a, tuple) and a[0] == "sym" and str(a[1]).startswith("distinct:")) or
                           (isinstance(b, tuple) and b[0] == "sym" and str(b[1]).startswith("distinct:"))):
                may = False     # a symbol declared different from every other value
            return may, fail
        if op == "!=":
            m, f = self.cmp_atoms("==", a, b)
            return f, m
        if op == "<":
            return la < hb, ha >= lb
        if op == "<=":
            return la <= hb, ha > lb
        if op == ">":
            return ha > lb, la <= hb
        if op == ">=":
            return ha >= lb, la < hb
        raise AnalysisBroken("comparison operator %s" % op)

    NEGOP = {"==": "!=", "!=": "==", "<": ">=", ">=": "<", ">": "<=", "<=": ">"}
    FLIP = {"==": "==", "!=": "!=", "<": ">", ">": "<", "<=": ">=", ">=": "<="}

    def refine_cmp(self, op, va, vb):
        """atoms of va for which `a op b` may hold for some b in vb"""
        return frozenset(a for a in va if any(self.cmp_atoms(op, a, b)[0] for b in vb))

    def arith(self, op, va, vb):
        if len(va) * len(vb) > 24 and op in ("+", "-") and not any(isinstance(a, tuple) for a in va | vb) \
                and "PTR" not in va and "PTR" not in vb:
            la = min(atom_interval(a)[0] for a in va)
            ha = max(atom_interval(a)[1] for a in va)
            lb = min(atom_interval(b)[0] for b in vb)
            hb = max(atom_interval(b)[1] for b in vb)
            if op == "+":
                return self.from_interval(la + lb, ha + hb)
            return self.from_interval(la - hb, ha - lb)
        out = set()
        for a in va:
            for b in vb:
                out |= self._arith1(op, a, b)
        return frozenset(out)

    def _arith1(self, op, a, b):
        # pointer arithmetic
        if isinstance(a, tuple) and a[0] == "addr" and op in ("+", "-"):
            if not self.widen and is_int(b) and a[1][0] == "i" and is_int(a[1][2]):
                k = a[1][2] + (b if op == "+" else -b)
                if 0 <= k <= 64:
                    return {("addr", ("i", a[1][1], k))}
            return {("addr", smash(a[1]))}
        if isinstance(b, tuple) and b[0] == "addr" and op == "+":
            return {("addr", smash(b[1]))}
        if isinstance(a, tuple) and a[0] == "mem" and op == "+" and "many" not in a:
            # pointer into a heap block: element k (exact when loops are unrolled, summarised otherwise)
            if not self.widen and is_int(b) and b >= 0:
                return {("addr", ("i", ("heap", a), b))}
            if is_int(b) or b in ("POS",):
                return {("addr", ("i", ("heap", a), "*"))}
        if a in ("PTR",) or (isinstance(a, tuple) and a[0] in ("mem", "str")):
            if op in ("+", "-") and not (isinstance(b, tuple) and b[0] in ("mem", "addr") or b == "PTR"):
                return {a}
        la, ha = atom_interval(a)
        lb, hb = atom_interval(b)
        if la == ha and lb == hb and abs(la) != INF and abs(lb) != INF:
            x, y = int(la), int(lb)
            try:
                if op == "+":
                    r = x + y
                elif op == "-":
                    r = x - y
                elif op == "*":
                    r = x * y
                elif op == "/":
                    r = int(x / y) if y else None
                elif op == "%":
                    r = x - int(x / y) * y if y else None
                elif op == "&":
                    r = x & y
                elif op == "|":
                    r = x | y
                elif op == "^":
                    r = x ^ y
                elif op == "<<":
                    r = x << y if 0 <= y < 63 else None
                elif op == ">>":
                    r = x >> y if 0 <= y < 63 else None
                else:
                    r = None
            except Exception:
                r = None
            if r is not None:
                return {self.abs_int(r)}
            return set(self.TOP_INT)
        if op == "+":
            return set(self.from_interval(la + lb, ha + hb))
        if op == "-":
            return set(self.from_interval(la - hb, ha - lb))
        if op == "*":
            if la >= 0 and lb >= 0:
                return set(self.from_interval(la * lb if la and lb else 0, INF if (ha and hb) else 0))
            return set(self.TOP_INT)
        if op in ("&",):
            if la >= 0 or lb >= 0:
                return set(self.nonneg())
            return set(self.TOP_INT)
        if op in ("|", "^"):
            if la >= 0 and lb >= 0:
                return set(self.nonneg())
            return set(self.TOP_INT)
        if op in ("/", ">>"):
            if la >= 0 and lb >= 0:
                return set(self.nonneg())
            return set(self.TOP_INT)
        if op == "%":
            if la >= 0 and lb >= 0:
                return set(self.nonneg())
            return set(self.TOP_INT)
        if op == "<<":
            if la >= 0:
                return set(self.nonneg())
            return set(self.TOP_INT)
        return set(self.TOP_INT)

    def small_counted_loop(self, fn, n):
        """is n the increment `i++` of `for (...; i < C; i++)` with a compile-time constant C <= 8 (ARRAY_SIZE of a small table)?
        Such loops are unrolled exactly instead of being widened: per-element precision at no real cost."""
        key = (fn.name, n["id"])
        c = self._elem_cache.get(("scl", key))
        if c is not None:
            return c
        res = False
        par = fn.nodes.get(fn.parent.get(n["id"]))
        if par is not None and par["k"] == "ForStmt" and par.get("inc") == n["id"] and par.get("cond") is not None:
            cond = strip(fn.nodes[par["cond"]])
            if cond["k"] == "BinaryOperator" and cond["op"] in ("<", "!=", "<="):
                lhs, rhs = strip(cond["c"][0]), strip(cond["c"][1])
                sub = strip(n["c"][0])
                if lhs["k"] == "DeclRefExpr" and sub["k"] == "DeclRefExpr" and lhs.get("did") == sub.get("did") \
                        and isinstance(rhs.get("val"), int) and 0 <= rhs["val"] <= 8:
                    body_writes = [x for x in walk_nodes(fn.nodes[par["body"]]) if x["k"] in ("UnaryOperator", "BinaryOperator", "CompoundAssignOperator")
                                   and x.get("op") in ("++", "--", "=", "+=", "-=") and strip(x["c"][0])["k"] == "DeclRefExpr"
                                   and strip(x["c"][0]).get("did") == sub.get("did")]
                    res = not body_writes
        self._elem_cache[("scl", key)] = res
        return res

    def widen_step(self, op, old, new):
        """induction steps (x++, x += e) are widened to a half line at once so loops are not unrolled
        through the tracked constants"""
        if not self.widen or any(isinstance(a, tuple) for a in new) or "PTR" in new or not new:
            return new
        los = [atom_interval(a)[0] for a in new]
        his = [atom_interval(a)[1] for a in new]
        if op == "+":
            return self.from_interval(min(los), INF)
        return self.from_interval(-INF, max(his))

    # ------------------------------------------------------------- memory
    def load(self, st, cell, ct):
        if cell in st.mem:
            return st.mem[cell]
        if cell[0] == "i":
            # element of an array: symbolic index reads join all known elements
            base = cell[1]
            if cell[2] == "*":
                vals = [v for c, v in st.mem.items() if c[0] == "i" and c[1] == base]
                if vals:
                    out = set()
                    for v in vals:
                        out |= v
                    # unknown elements may exist as well
                    return frozenset(out) | self.top_for_type(ct, cell)
            else:
                star = ("i", base, "*")
                if star in st.mem:
                    return st.mem[star]
        if cell[0] == "g":
            if cell[1] == "errno":
                return self.pos()
            if cell[1] in self.prog.consts:
                return frozenset({self.abs_int(self.prog.consts[cell[1]])})
        return self.top_for_type(ct, cell)

    def store(self, st, cells, val, fn=None, node=None, weak=False):
        cells = list(cells)
        if not cells:
            return st
        s = st.copy()
        if s.mon.get("rel"):
            keep = frozenset(f for f in s.mon["rel"] if f[1] not in cells and f[2] not in cells)
            if keep:
                s.mon["rel"] = keep
            else:
                del s.mon["rel"]
        strong = len(cells) == 1 and not weak and not is_weak_cell(cells[0])
        for c in cells:
            if strong:
                s.mem[c] = val
            else:
                old = s.mem.get(c)
                if old is None:
                    # unknown old value: joining with TOP of unknown type; keep it simple: drop the cell
                    # unless we can keep precision by union with the new value when the cell was absent
                    s.mem.pop(c, None)
                else:
                    s.mem[c] = frozenset(old | val)
            if c[0] == "i" and c[2] == "*":
                # weak update of every known element
                for k in list(s.mem):
                    if k[0] == "i" and k[1] == c[1] and k[2] != "*":
                        s.mem[k] = frozenset(s.mem[k] | val)
        for c in cells:
            b = cell_base(c)
            if b[0] == "g" and b[1] == "errno":
                # the function reports a failure of its own through errno: same standing as a failed library call
                if val and all(atom_interval(a)[0] >= 1 for a in val) and "failed" not in s.mon and fn is not None and node is not None:
                    s.mon["failed"] = "errno=@%s:%d" % (fn.name, node["l"][0])
            elif b[0] == "g":
                self.events.append(("store-global", fn, node, (c, val), s, tuple(f.name for f in self.stack), tuple(self.callsites)))
            elif b[0] == "d":
                self.events.append(("store-input", fn, node, (c, val), s, tuple(f.name for f in self.stack), tuple(self.callsites)))
            elif b[0] == "heap":
                self.events.append(("store-heap", fn, node, (c, val), s, tuple(f.name for f in self.stack), tuple(self.callsites)))
        for h in self.hooks_store:
            for c in cells:
                r = h(self, fn, node, c, val, s)
                if r is not None:
                    s = r
        return s

    def kill_prefix(self, s, prefix):
        for k in [k for k in s.mem if cell_has_prefix(k, prefix) and k != prefix]:
            del s.mem[k]

    def copy_agg(self, st, dst, srcs, fn=None, node=None):
        """dst := join of aggregates at srcs (cells)"""
        s = st.copy()
        self.kill_prefix(s, dst)
        s.mem.pop(dst, None)
        if len(srcs) == 1:
            src = srcs[0]
            for k, v in list(st.mem.items()):
                if k != src and cell_has_prefix(k, src):
                    s.mem[cell_join(dst, cell_suffix(k, src))] = v
        else:
            # join: only leaves present in all sources survive (others are TOP)
            leafsets = []
            for src in srcs:
                leafsets.append({tuple(cell_suffix(k, src)): v for k, v in st.mem.items()
                                 if k != src and cell_has_prefix(k, src)})
            common = set(leafsets[0])
            for ls in leafsets[1:]:
                common &= set(ls)
            for p in common:
                v = frozenset().union(*[ls[p] for ls in leafsets])
                s.mem[cell_join(dst, list(p))] = v
        for h in self.hooks_store:
            for k, v in list(s.mem.items()):
                if k != dst and cell_has_prefix(k, dst):
                    r = h(self, fn, node, k, v, s)
                    if r is not None:
                        s = r
        return s

    # ------------------------------------------------------------- lvalues
    def lval(self, n, st, fn):
        """set of cells designated by lvalue expression n"""
        n0 = n
        n = strip_lv(n)
        k = n["k"]
        if k == "DeclRefExpr":
            dk = n.get("dk")
            if dk in ("local", "param", "staticlocal"):
                return [("v", fn.gdid(n["did"]))]
            if dk == "global":
                return [("g", n["name"])]
            raise AnalysisBroken("lvalue DeclRefExpr kind %s (%s) in %s" % (dk, n.get("name"), fn.name))
        if k == "MemberExpr":
            base = n["c"][0]
            if n["arrow"]:
                targets = self.ptr_targets(self.rval(base, st, fn), base)
            else:
                targets = self.agg_cells(base, st, fn)
            return [("f", t, n["member"]) for t in targets]
        if k == "UnaryOperator" and n["op"] == "*":
            ts = self.ptr_targets(self.rval(n["c"][0], st, fn), n["c"][0])
            if not is_agg_type(n):
                # *p on a heap block of scalars / pointers is element 0 of that block
                ts = [("i", t, 0) if t[0] == "heap" else t for t in ts]
            return ts
        if k == "ArraySubscriptExpr":
            base, idx = n["c"][0], n["c"][1]
            iv = self.rval(idx, st, fn)
            ik = next(iter(iv)) if len(iv) == 1 and is_int(next(iter(iv))) else "*"
            bv = self.rval(base, st, fn)
            # bounds of a declared array: `T x[N]` indexed with a value that may be < 0 or >= N
            b0 = strip_lv(base)
            if b0["k"] == "ImplicitCastExpr" and b0.get("ck") == "ArrayToPointerDecay":
                at = b0["c"][0].get("ct") or b0["c"][0].get("t") or ""
                m = _ARR.search(at)
                if m:
                    N = int(m.group(1))
                    bad = [a for a in iv if self.ival(a)[0] < 0 or (self.ival(a)[1] >= N and not (a == "POS" and False))]
                    if bad and len(iv) <= 12 and self.stack:
                        self.events.append(("oob", fn, n, (iv, N), st, tuple(f.name for f in self.stack), tuple(self.callsites)))
            out = []
            for t in self.ptr_targets(bv, base):
                # pointer to element 0 of an array / to a pointee treated as array
                if t[0] == "i":
                    if t[2] == 0:
                        out.append(("i", t[1], ik))
                    else:
                        out.append(("i", t[1], "*"))
                else:
                    out.append(("i", t, ik))
            return out
        if k == "CompoundLiteralExpr":
            return self.agg_cells(n, st, fn)
        if k == "CallExpr" or k == "ConditionalOperator" or k == "InitListExpr":
            return self.agg_cells(n, st, fn)
        raise AnalysisBroken("unsupported lvalue %s at %s in %s" % (k, fn.loc(n0), fn.name))

    def ptr_targets(self, val, node=None):
        out = []
        if ("NULL" in val or 0 in val) and node is not None and self.stack:
            self.events.append(("null-deref", self.stack[-1], node, val, None, tuple(f.name for f in self.stack), tuple(self.callsites)))
        for a in val:
            if isinstance(a, tuple) and a[0] == "addr":
                out.append(a[1])
            elif isinstance(a, tuple) and a[0] == "mem":
                out.append(("heap", a))
            elif a == "NULL":
                continue   # null dereference is a separate rule's business
            elif a == "PTR" or (isinstance(a, tuple) and a[0] == "str"):
                out.append(("unk", id(node) if node is None else node["id"]))
            elif is_int(a) and a == 0:
                continue
            else:
                out.append(("unk", 0))
        return out

    def agg_cells(self, n, st, fn):
        """cells holding the aggregate value of expression n"""
        n = strip_lv(n)
        k = n["k"]
        if k in ("DeclRefExpr", "MemberExpr", "ArraySubscriptExpr") or (k == "UnaryOperator" and n["op"] == "*"):
            return self.lval(n, st, fn)
        if k in CALL_KINDS:
            return [("ret", fn.name, n["id"])]
        if k in ("CompoundLiteralExpr",):
            return self.agg_cells(n["c"][0], st, fn)
        if k == "InitListExpr":
            return [("lit", fn.name, n["id"])]
        if k == "ConditionalOperator":
            br = st.tmp.get((fn.name, "br", n["id"]))
            if br is True:
                return self.agg_cells(n["c"][1], st, fn)
            if br is False:
                return self.agg_cells(n["c"][2], st, fn)
            return self.agg_cells(n["c"][1], st, fn) + self.agg_cells(n["c"][2], st, fn)
        if k == "BinaryOperator" and n["op"] == "=":
            return self.agg_cells(n["c"][0], st, fn)
        if k == "BinaryOperator" and n["op"] == ",":
            return self.agg_cells(n["c"][1], st, fn)
        raise AnalysisBroken("unsupported aggregate expression %s at %s in %s" % (k, fn.loc(n), fn.name))

    # ------------------------------------------------------------- rvalues
    def rval(self, n, st, fn):
        k = n["k"]
        if "val" in n and k not in ("DeclRefExpr",) and not has_side_effect_kind(n):
            return frozenset({self.abs_int(n["val"])})
        if k in ("ImplicitCastExpr", "CStyleCastExpr", "CXXStaticCastExpr"):
            ck = n.get("ck")
            sub = n["c"][0]
            if ck == "LValueToRValue":
                if is_agg_type(n):
                    raise AnalysisBroken("aggregate used as scalar at %s" % fn.loc(n))
                cells = self.lval(sub, st, fn)
                return self.load_cells(st, cells, n.get("ct") or n.get("t"))
            if ck == "ArrayToPointerDecay":
                if strip_lv(sub)["k"] == "StringLiteral":
                    return frozenset({("str", strip_lv(sub).get("str", ""))})
                if strip_lv(sub)["k"] == "PredefinedExpr":
                    return frozenset({("str", "__func__")})
                cells = self.lval(sub, st, fn)
                return frozenset(("addr", ("i", c, 0)) for c in cells)
            if ck == "FunctionToPointerDecay":
                s = strip(sub)
                if s["k"] == "DeclRefExpr":
                    return frozenset({("fn", s["name"])})
                return frozenset({"PTR"})
            if ck == "NullToPointer":
                return frozenset({"NULL"})
            if ck in ("IntegralToBoolean", "PointerToBoolean"):
                t, f = self.truth(self.rval(sub, st, fn))
                return frozenset(([1] if t else []) + ([0] if f else []))
            if ck == "ToVoid":
                return frozenset()
            if ck == "IntegralToPointer":
                v = self.rval(sub, st, fn)
                return frozenset("NULL" if a == 0 else a for a in v)
            v = self.rval(sub, st, fn)
            if ck == "IntegralCast":
                dt = n.get("ct") or n.get("t") or ""
                stt = sub.get("ct") or sub.get("t") or ""
                for h in self.hooks_cast:
                    h(self, fn, n, stt, dt, v, st)
                if dt.startswith("unsigned") and not stt.startswith("unsigned"):
                    # a negative value converted to an unsigned type becomes a large positive one
                    v = frozenset("POS" if (a == "NEG" or (is_int(a) and a < 0)) else a for a in v)
            return v
        if k in ("ParenExpr", "ConstantExpr"):
            return self.rval(n["c"][0], st, fn)
        if k == "DeclRefExpr":
            dk = n.get("dk")
            if dk == "enum":
                return frozenset({self.abs_int(n["val"])})
            if dk == "func":
                return frozenset({("fn", n["name"])})
            if dk == "global":
                nm = n["name"]
                if nm in self.prog.consts:
                    return frozenset({self.abs_int(self.prog.consts[nm])})
            cells = self.lval(n, st, fn)
            return self.load_cells(st, cells, n.get("ct") or n.get("t"))
        if k in ("MemberExpr", "ArraySubscriptExpr"):
            cells = self.lval(n, st, fn)
            return self.load_cells(st, cells, n.get("ct") or n.get("t"))
        if k in ("IntegerLiteral", "CharacterLiteral", "CXXBoolLiteralExpr"):
            return frozenset({self.abs_int(n["val"])})
        if k == "StringLiteral":
            return frozenset({("str", n.get("str", ""))})
        if k in ("GNUNullExpr", "CXXNullPtrLiteralExpr"):
            return frozenset({"NULL"})
        if k == "ImplicitValueInitExpr":
            return frozenset({"NULL"}) if is_ptr_type(n.get("ct") or n.get("t")) else frozenset({0})
        if k == "UnaryExprOrTypeTraitExpr":
            return frozenset({self.abs_int(n["val"])}) if "val" in n else self.pos()
        if k in CALL_KINDS:
            key = (fn.name, "t", n["id"])
            if key in st.tmp:
                return st.tmp[key]
            raise AnalysisBroken("call value used before evaluation at %s (%s)" % (fn.loc(n), expr_str(n)))
        if k == "UnaryOperator":
            op = n["op"]
            sub = n["c"][0]
            if op in ("++", "--"):
                key = (fn.name, "t", n["id"])
                if key in st.tmp:
                    return st.tmp[key]
                raise AnalysisBroken("inc/dec value used before evaluation at %s" % fn.loc(n))
            if op == "&":
                s = strip_lv(sub)
                if s["k"] == "DeclRefExpr" and s.get("dk") == "func":
                    return frozenset({("fn", s["name"])})
                return frozenset(("addr", c) for c in self.lval(sub, st, fn))
            if op == "*":
                cells = self.lval(n, st, fn)
                return self.load_cells(st, cells, n.get("ct") or n.get("t"))
            v = self.rval(sub, st, fn)
            if op == "-":
                out = set()
                for a in v:
                    lo, hi = atom_interval(a)
                    if lo == hi and abs(lo) != INF:
                        out.add(self.abs_int(-int(lo)))
                    else:
                        out |= self.from_interval(-hi, -lo)
                return frozenset(out)
            if op == "+":
                return v
            if op == "!":
                t, f = self.truth(v)
                return frozenset(([0] if t else []) + ([1] if f else []))
            if op == "~":
                out = set()
                for a in v:
                    if is_int(a):
                        out.add(self.abs_int(~a))
                    else:
                        out |= self.TOP_INT
                return frozenset(out)
            if op == "__extension__":
                return v
            raise AnalysisBroken("unary operator %s at %s" % (op, fn.loc(n)))
        if k == "BinaryOperator":
            op = n["op"]
            a, b = n["c"]
            if op == "=":
                key = (fn.name, "t", n["id"])
                if key in st.tmp:
                    return st.tmp[key]
                raise AnalysisBroken("assignment value used before evaluation at %s" % fn.loc(n))
            if op == ",":
                return self.rval(b, st, fn)
            if op in ("&&", "||"):
                entered = st.tmp.get((fn.name, "br", n["id"]))
                if entered:
                    tb, fb = self.truth(self.rval_safe(b, st, fn))
                    return frozenset(([1] if tb else []) + ([0] if fb else []))
                # right operand not evaluated on this path: the left one decided
                return frozenset({0}) if op == "&&" else frozenset({1})
            va = self.rval(a, st, fn)
            vb = self.rval(b, st, fn)
            if op == "-" and st.mon.get("rel"):
                ca, cb = self.single_cell(a, st, fn), self.single_cell(b, st, fn)
                if ca is not None and cb is not None:
                    rr = self.pos() if ("<", cb, ca) in st.mon["rel"] else self.nonneg() if ("<=", cb, ca) in st.mon["rel"] else None
                    if rr is not None:
                        # the relation bounds the difference from below; what plain arithmetic knows on top of that is kept
                        lo = 1 if ("<", cb, ca) in st.mon["rel"] else 0
                        exact = self.arith(op, va, vb)
                        if exact and not any(isinstance(x, tuple) or x in ("PTR", "NULL") for x in exact):
                            keep = frozenset(x for x in exact if atom_interval(x)[1] >= lo and x != "NEG")
                            if keep and keep <= rr:
                                rr = keep
                        for h in self.hooks_arith:
                            h(self, fn, n, op, rr, st)
                        return rr
            if op in ("==", "!=", "<", "<=", ">", ">="):
                for h in self.hooks_cmp:
                    h(self, fn, n, op, va, vb, st)
                may = fail = False
                for x in va:
                    for y in vb:
                        m, f = self.cmp_atoms(op, x, y)
                        may |= m
                        fail |= f
                return frozenset(([1] if may else []) + ([0] if fail else []))
            rr = self.arith(op, va, vb)
            for h in self.hooks_arith:
                h(self, fn, n, op, rr, st)
            return rr
        if k == "CompoundAssignOperator":
            key = (fn.name, "t", n["id"])
            if key in st.tmp:
                return st.tmp[key]
            raise AnalysisBroken("compound assignment value used before evaluation at %s" % fn.loc(n))
        if k == "ConditionalOperator":
            c, a, b = n["c"]
            br = st.tmp.get((fn.name, "br", n["id"]))
            if br is None and "val" in c:
                br = bool(c["val"])
            if br is True:
                return self.rval(a, st, fn)
            if br is False:
                return self.rval(b, st, fn)
            return frozenset(self.rval_safe(a, st, fn) | self.rval_safe(b, st, fn))
        if k == "CompoundLiteralExpr" or k == "InitListExpr":
            raise AnalysisBroken("aggregate literal used as scalar at %s" % fn.loc(n))
        if k == "StmtExpr":
            return self.TOP_INT
        if k == "PredefinedExpr":
            return frozenset({("str", "")})
        if k == "VAArgExpr":
            return self.top_for_type(n.get("ct") or n.get("t"))
        raise AnalysisBroken("unsupported expression %s at %s in %s" % (k, fn.loc(n), fn.name))

    def rval_safe(self, n, st, fn):
        """value of a sub expression that may not have been evaluated on this path"""
        try:
            return self.rval(n, st, fn)
        except AnalysisBroken as e:
            if "before evaluation" in str(e):
                return self.top_for_type(n.get("ct") or n.get("t"))
            raise

    def load_cells(self, st, cells, ct):
        if self.log_loads:
            for c in cells:
                if cell_base(c)[0] == "heap":
                    self.loads.add(c)
        if not cells:
            return self.top_for_type(ct)
        out = set()
        for c in cells:
            out |= self.load(st, c, ct)
        return frozenset(out)

    # ------------------------------------------------------------- statements
    def exec_elem(self, n, st, fn):
        """returns list of successor states"""
        k = n["k"]
        if k == "DeclStmt":
            sts = [st]
            for vd in n["c"]:
                sts = [s2 for s in sts for s2 in self.exec_vardecl(vd, s, fn)]
            return sts
        if k == "VarDecl":
            return self.exec_vardecl(n, st, fn)
        if k in CALL_KINDS:
            return self.exec_call(n, st, fn)
        if k == "BinaryOperator" and n["op"] == "=":
            lhs, rhs = n["c"]
            if is_agg_type(lhs):
                srcs = self.agg_cells(rhs, st, fn)
                st = self.materialize_lits(rhs, st, fn)
                dsts = self.lval(lhs, st, fn)
                if len(dsts) != 1:
                    raise AnalysisBroken("aggregate assignment to ambiguous destination at %s" % fn.loc(n))
                return [self.copy_agg(st, dsts[0], srcs, fn, n)]
            v = self.rval(rhs, st, fn)
            cells = self.lval(lhs, st, fn)
            s = self.store(st, cells, v, fn, n)
            s.tmp[(fn.name, "t", n["id"])] = v
            return [s]
        if k == "CompoundAssignOperator":
            lhs, rhs = n["c"]
            op = n["op"][:-1]
            cells = self.lval(lhs, st, fn)
            old = self.load_cells(st, cells, lhs.get("ct") or lhs.get("t"))
            v = self.arith(op, old, self.rval(rhs, st, fn))
            if op in ("+", "-"):
                v = self.widen_step(op, old, v)
            for h in self.hooks_arith:
                h(self, fn, n, op, v, st)
            s = self.store(st, cells, v, fn, n)
            s.tmp[(fn.name, "t", n["id"])] = v
            return [s]
        if k == "UnaryOperator" and n["op"] in ("++", "--"):
            sub = n["c"][0]
            cells = self.lval(sub, st, fn)
            old = self.load_cells(st, cells, sub.get("ct") or sub.get("t"))
            new = self.arith("+" if n["op"] == "++" else "-", old, frozenset({1}))
            if not self.small_counted_loop(fn, n):
                new = self.widen_step("+" if n["op"] == "++" else "-", old, new)
            s = self.store(st, cells, new, fn, n)
            s.tmp[(fn.name, "t", n["id"])] = old if n.get("postfix") else new
            return [s]
        if k == "ReturnStmt":
            s = st.copy()
            if n.get("c"):
                e = n["c"][0]
                if is_agg_type(e):
                    s = self.materialize_lits(e, s, fn)
                    srcs = self.agg_cells(e, s, fn)
                    s = self.copy_agg(s, ("retagg", fn.name), srcs, fn, n)
                    s.tmp[(fn.name, "ret")] = frozenset({("agg", fn.name)})
                else:
                    s.tmp[(fn.name, "ret")] = self.rval(e, st, fn)
            else:
                s.tmp[(fn.name, "ret")] = frozenset()
            s.tmp[(fn.name, "retnode")] = n["id"]
            return [s]
        if k in ("CompoundLiteralExpr", "InitListExpr"):
            return [st]
        return [st]

    def materialize_lits(self, e, st, fn):
        """evaluate aggregate literals inside expression e into their temp cells"""
        e = strip_lv(e)
        k = e["k"]
        if k == "CompoundLiteralExpr":
            return self.materialize_lits(e["c"][0], st, fn)
        if k == "InitListExpr":
            cell = ("lit", fn.name, e["id"])
            s = st.copy()
            self.kill_prefix(s, cell)
            return self.init_agg(s, cell, e, fn)
        if k == "ConditionalOperator":
            st = self.materialize_lits(e["c"][1], st, fn)
            return self.materialize_lits(e["c"][2], st, fn)
        return st

    def init_agg(self, st, cell, ile, fn):
        """initialise aggregate at cell from InitListExpr (semantic form)"""
        fields = ile.get("fields")
        for i, sub in enumerate(ile["c"]):
            if fields is not None:
                if i >= len(fields):
                    break
                c = ("f", cell, fields[i])
            else:
                c = ("i", cell, i)
            st = self.init_cell(st, c, sub, fn)
        return st

    def init_cell(self, st, c, sub, fn):
        s0 = strip_lv(sub) if is_agg_type(sub) else sub
        if s0["k"] == "InitListExpr":
            return self.init_agg(st, c, s0, fn)
        if s0["k"] == "CompoundLiteralExpr":
            return self.init_agg(st, c, s0["c"][0], fn)
        if s0["k"] == "ImplicitValueInitExpr" and is_agg_type(s0):
            # zero initialised aggregate: leaves read as TOP unless zeroed; record zero marker
            s = st.copy()
            self.kill_prefix(s, c)
            s.mem[("f", c, "__zero__")] = frozenset({0})
            return s
        if is_agg_type(sub):
            srcs = self.agg_cells(sub, st, fn)
            return self.copy_agg(st, c, srcs, fn, sub)
        v = self.rval(sub, st, fn)
        return self.store(st, [c], v, fn, sub)

    def exec_vardecl(self, vd, st, fn):
        cell = ("v", fn.gdid(vd["did"]))
        self.name_of_did[fn.gdid(vd["did"])] = vd["name"]
        if vd.get("static") or vd.get("extern"):
            return [st]
        s = st.copy()
        self.kill_prefix(s, cell)
        s.mem.pop(cell, None)
        if not vd.get("c"):
            return [s]
        init = vd["c"][0]
        if is_agg_ct(vd.get("ct")) or init["k"] == "InitListExpr":
            i0 = strip_lv(init)
            if i0["k"] in ("InitListExpr", "CompoundLiteralExpr"):
                if i0["k"] == "CompoundLiteralExpr":
                    i0 = i0["c"][0]
                return [self.init_agg(s, cell, i0, fn)]
            s = self.materialize_lits(init, s, fn)
            srcs = self.agg_cells(init, s, fn)
            return [self.copy_agg(s, cell, srcs, fn, vd)]
        v = self.rval(init, s, fn)
        return [self.store(s, [cell], v, fn, vd)]

    # ------------------------------------------------------------- calls
    def fresh(self, kind, fn, node):
        site = "%s:%d" % (fn.name, node["l"][0])
        return (kind, site, node["id"])

    def exec_call(self, n, st, fn):
        callee_expr = n["c"][0]
        args = n["c"][1:]
        name = n.get("callee")
        if name is None:
            # indirect call
            fv = self.rval(callee_expr, st, fn)
            names = [a[1] for a in fv if isinstance(a, tuple) and a[0] == "fn"]
            if len(names) == 1 and len(fv) == 1:
                name = names[0]
            else:
                name = "<indirect>"
        argvals = []
        for a in args:
            if is_agg_type(a):
                st = self.materialize_lits(a, st, fn)
                argvals.append(("agg", self.agg_cells(a, st, fn)))
            else:
                argvals.append(self.rval(a, st, fn))
        outcomes = None
        for h in self.hooks_call:
            r = h(self, fn, n, name, argvals, st)
            if isinstance(r, State):
                st = r          # the hook only annotated the state (monitor variables)
            elif r is not None:
                outcomes = r
                break
        if outcomes is None:
            if name in self.overrides:
                outcomes = self.overrides[name](self, fn, n, argvals, st)
                self.stats["calls_modelled"] += 1
            elif name in self.prog.funcs and name not in self.no_inline and not self.on_stack(name) \
                    and len(self.stack) < self.max_depth:
                outcomes = self.inline(self.prog.funcs[name], n, argvals, st, fn)
                self.stats["calls_inlined"] += 1
            elif name in self.models:
                outcomes = self.models[name](self, fn, n, argvals, st)
                self.stats["calls_modelled"] += 1
            else:
                outcomes = self.default_model(fn, n, name, argvals, st)
                self.stats["calls_modelled"] += 1
        modelled = not (name in self.prog.funcs and name not in self.overrides and name not in self.no_inline)
        res = []
        seen_out = set()
        for (s, v) in outcomes:
            if modelled and v != "NORETURN":
                # any library call may clobber errno unless the model says what it left there
                if ("errno_set",) in s.tmp:
                    s = s.copy()
                    del s.tmp[("errno_set",)]
                elif name in self.PURE:
                    pass
                elif ("g", "errno") in s.mem:
                    s = s.copy()
                    del s.mem[("g", "errno")]
            if v == "NORETURN":
                self.result.aborts.append((s, n, fn))
                continue
            # a model may hand the same state object out with two different results: each outcome needs its own copy
            s = s.copy() if (s is st or id(s) in seen_out) else s
            seen_out.add(id(s))
            if isinstance(v, tuple) and len(v) == 2 and v[0] == "aggret":
                # aggregate already stored at v[1]; copy into this call's ret cell
                s = self.copy_agg(s, ("ret", fn.name, n["id"]), [v[1]], fn, n)
                s.tmp[(fn.name, "t", n["id"])] = frozenset({("agg", n["id"])})
            else:
                s.tmp[(fn.name, "t", n["id"])] = v
            res.append(s)
        return res

    def on_stack(self, name):
        return any(f.name == name for f in self.stack)

    def default_model(self, fn, n, name, argvals, st):
        """unknown external: havoc what it can reach through non-const pointer arguments"""
        s = st.copy()
        for a, an in zip(argvals, n["c"][1:]):
            if isinstance(a, tuple) and a and a[0] == "agg":
                continue
            t = an.get("ct") or an.get("t") or ""
            if "const" in t.split("*")[0] and is_ptr_type(t):
                continue
            for x in a:
                if isinstance(x, tuple) and x[0] == "addr":
                    s.mem.pop(x[1], None)
                    self.kill_prefix(s, x[1])
        self.events.append(("unknown-call", fn, n, name, None, tuple(f.name for f in self.stack), tuple(self.callsites)))
        # nothing is known about errno after a call without a model: functions that report through their return value (pthread_*,
        # posix_spawn*, ...) leave it alone, so it may still be 0 - "-errno" is then not a negative code
        s.mem[("g", "errno")] = frozenset({0}) | self.pos()
        s.tmp[("errno_set",)] = True
        return [(s, self.top_for_type(n.get("ct") or n.get("t")))]

    def locals_of(self, F):
        if F.name not in self._locals_cache:
            ds = set()
            for p in F.params:
                ds.add(F.gdid(p["did"]))
                self.name_of_did[F.gdid(p["did"])] = p["name"]
            for x in F.nodes.values():
                if x["k"] == "VarDecl":
                    ds.add(F.gdid(x["did"]))
            self._locals_cache[F.name] = ds
        return self._locals_cache[F.name]

    def inline(self, F, n, argvals, st, caller):
        self.callsites.append((caller.name, expr_str(n)[:80]))
        try:
            return self._inline(F, n, argvals, st, caller)
        finally:
            self.callsites.pop()

    def _inline(self, F, n, argvals, st, caller):
        s = st.copy()
        # bind parameters
        for p, a in zip(F.params, argvals):
            cell = ("v", F.gdid(p["did"]))
            self.kill_prefix(s, cell)
            if isinstance(a, tuple) and a and a[0] == "agg":
                s = self.copy_agg(s, cell, a[1], F, n)
            else:
                s.mem[cell] = a
        outs = []
        for (es, rv) in self.run_function(F, [s]):
            es = es.copy()
            # drop callee frame
            loc = self.locals_of(F)
            for k in [k for k in es.mem if cell_base(k)[0] == "v" and cell_base(k)[1] in loc]:
                del es.mem[k]
            for k in [k for k in es.tmp if k[0] == F.name]:
                del es.tmp[k]
            if es.mon.get("rel"):
                keep = frozenset(f for f in es.mon["rel"]
                                 if not any(cell_base(c)[0] == "v" and cell_base(c)[1] in loc for c in f[1:]))
                if keep:
                    es.mon["rel"] = keep
                else:
                    del es.mon["rel"]
            if rv and next(iter(rv)) == ("agg", F.name) and len(rv) == 1:
                outs.append((es, ("aggret", ("retagg", F.name))))
            else:
                outs.append((es, rv))
        # dedupe
        seen = {}
        for es, rv in outs:
            key = (es.frozen(), rv if not isinstance(rv, tuple) else rv)
            seen.setdefault(key, (es, rv))
        return list(seen.values())

    # ------------------------------------------------------------- driver
    def run(self, fn, init_states=None):
        self.result = Result()
        self.events = self.result.events
        self.stack = []
        init_states = init_states or [State()]
        outs = self.run_function(fn, init_states)
        self.result.exits = outs
        return self.result

    def run_function(self, fn, init_states):
        self.stack.append(fn)
        try:
            return self._run_function(fn, init_states)
        finally:
            self.stack.pop()

    def liveness(self, fn):
        """block id -> set of gdids of locals live at block entry (address-taken locals are always live)"""
        if fn.name in self._live_cache:
            return self._live_cache[fn.name]
        cfg = fn.cfg
        always = set()
        for n in fn.nodes.values():
            if n["k"] == "UnaryOperator" and n["op"] == "&":
                for x in walk_nodes(n):
                    if x["k"] == "DeclRefExpr" and x.get("dk") in ("local", "param"):
                        always.add(fn.gdid(x["did"]))
            if n["k"] == "ImplicitCastExpr" and n.get("ck") == "ArrayToPointerDecay":
                for x in walk_nodes(n):
                    if x["k"] == "DeclRefExpr" and x.get("dk") in ("local", "param"):
                        always.add(fn.gdid(x["did"]))
        gen, kill = {}, {}
        for bid, B in cfg.blocks.items():
            g, k = set(), set()
            nodes = [fn.nodes[e] for e in B.elems if e in fn.nodes and is_effect_node(fn.nodes[e])]
            if B.tcond is not None and B.tcond in fn.nodes:
                nodes.append(fn.nodes[B.tcond])
            for n in nodes:
                defd = None
                sub = n
                if n["k"] == "BinaryOperator" and n["op"] == "=":
                    l = strip_lv(n["c"][0])
                    if l["k"] == "DeclRefExpr" and l.get("dk") in ("local", "param") and not is_agg_type(l):
                        defd = fn.gdid(l["did"])
                        sub = n["c"][1]
                elif n["k"] == "VarDecl":
                    defd = fn.gdid(n["did"])
                for x in (walk_nodes(sub) if sub is not n or n["k"] != "VarDecl" else
                          (y for c in n.get("c", []) for y in walk_nodes(c))):
                    if x["k"] == "DeclRefExpr" and x.get("dk") in ("local", "param"):
                        d = fn.gdid(x["did"])
                        if d not in k:
                            g.add(d)
                if n["k"] == "DeclStmt":
                    pass
                if defd is not None and defd not in g:
                    k.add(defd)
            gen[bid], kill[bid] = g, k
        live_in = {b: set() for b in cfg.blocks}
        changed = True
        while changed:
            changed = False
            for bid, B in cfg.blocks.items():
                out = set()
                for (s, _) in B.succs:
                    if s is not None:
                        out |= live_in[s]
                new = gen[bid] | (out - kill[bid])
                if new != live_in[bid]:
                    live_in[bid] = new
                    changed = True
        res = {b: (v | always) for b, v in live_in.items()}
        self._live_cache[fn.name] = (res, self.locals_of(fn))
        return self._live_cache[fn.name]

    DEAD_STATUS = ("closed", "freed", "moved", "reaped", "gone")

    def gc_tokens(self, st):
        """forget resources that are finished (closed / freed / reaped) and no longer referenced anywhere:
        nothing can happen to them any more, and forgetting them lets equal futures merge"""
        cand = [k for k, v in st.res.items() if k[0] in ("fd", "mem", "pid") and v and v[0] in self.DEAD_STATUS]
        if not cand:
            return st
        ref = set()
        for v in st.mem.values():
            for a in v:
                if isinstance(a, tuple):
                    ref.add(a)
        for v in st.tmp.values():
            if isinstance(v, frozenset):
                for a in v:
                    if isinstance(a, tuple):
                        ref.add(a)
        dead = [k for k in cand if k not in ref]
        if not dead:
            return st
        s = st.copy()
        for k in dead:
            del s.res[k]
            s.res.pop(("nb", k), None)
        return s

    def drop_dead(self, st, fn, bid):
        st = self.gc_tokens(st)
        live, locs = self.liveness(fn)
        lv = live[bid]
        dead = [k for k in st.mem if cell_base(k)[0] == "v" and cell_base(k)[1] in locs and cell_base(k)[1] not in lv
                and self.name_of_did.get(cell_base(k)[1]) not in self.keep_live]
        if not dead:
            return st
        s = st.copy()
        for k in dead:
            del s.mem[k]
        return s

    def _run_function(self, fn, init_states):
        cfg = fn.cfg
        seen = {}      # block -> set of frozen states
        work = []
        for s in init_states:
            work.append((cfg.entry, s))
        exits = []
        exit_seen = set()
        while work:
            bid, st = work.pop()
            if bid != cfg.entry:
                st = self.drop_dead(st, fn, bid)
                Bx = cfg.blocks[bid]
                first = next((e for e in Bx.elems if e in fn.nodes), Bx.tcond)
                if first is not None:
                    st = self.prune_tmps(st, fn, first)
                elif bid != cfg.exit:
                    st = self.drop_tmps(st, fn)
            fz = st.frozen()
            sb = seen.setdefault(bid, set())
            if fz in sb:
                continue
            sb.add(fz)
            if len(sb) > self.MAX_STATES:
                raise AnalysisBroken("state cap exceeded in %s block B%d (%d states): imprecise, no verdict"
                                     % (fn.name, bid, len(sb)))
            self.stats["states"] += 1
            self.stats["max_states_block"] = max(self.stats["max_states_block"], len(sb))
            B = cfg.blocks[bid]
            if bid == cfg.exit:
                rv = st.tmp.get((fn.name, "ret"), frozenset())
                key = (fz, rv)
                if key not in exit_seen:
                    exit_seen.add(key)
                    exits.append((st, rv))
                continue
            self.stats["blocks"] += 1
            sts = [st]
            arms = self.arm_entries(fn)
            for eid in B.elems:
                if eid < 0:
                    continue
                node = fn.nodes.get(eid)
                if node is None:
                    continue
                if eid in arms:
                    marks = arms[eid]
                    new = []
                    for s in sts:
                        if any(s.tmp.get((fn.name, "br", nid)) != dec for nid, dec in marks):
                            s = self.prune_tmps(s, fn, eid).copy()
                            for nid, dec in marks:
                                s.tmp[(fn.name, "br", nid)] = dec
                        new.append(s)
                    sts = new
                if not is_effect_node(node):
                    continue
                nxt = []
                for s in sts:
                    nxt.extend(self.exec_elem(node, self.prune_tmps(s, fn, eid), fn))
                sts = nxt
                if not sts:
                    break
            if not sts:
                continue
            edges = cfg.edges(B)
            for s in sts:
                if B.tcond is not None:
                    s = self.prune_tmps(s, fn, B.tcond)
                for (succ, s2) in self.branch(B, edges, s, fn):
                    work.append((succ, s2))
        return exits

    STMT_KINDS = ("CompoundStmt", "IfStmt", "ForStmt", "WhileStmt", "DoStmt", "SwitchStmt", "CaseStmt", "DefaultStmt",
                  "LabelStmt", "DeclStmt", "ReturnStmt", "NullStmt", "AttributedStmt")

    def roots(self, fn):
        """node id -> id of its full-expression root"""
        if fn.name in self._root_cache:
            return self._root_cache[fn.name]
        root = {}

        def rec(n, cur):
            k = n["k"]
            if k in ("DeclStmt", "ReturnStmt"):
                cur = n["id"]          # the statement and everything below it form one unit
            elif k == "VarDecl" and cur is None:
                cur = n["id"]
            elif k in self.STMT_KINDS:
                cur = None
            elif cur is None:
                cur = n["id"]
            root[n["id"]] = cur if cur is not None else n["id"]
            for c in n.get("c", []):
                rec(c, cur)
        rec(fn.body, None)
        self._root_cache[fn.name] = root
        return root

    def prune_tmps(self, st, fn, node_id):
        if not st.tmp:
            return st
        root = self.roots(fn)
        cur = root.get(node_id)
        dead = [k for k in st.tmp if k[0] == fn.name and k[1] in ("t", "br") and root.get(k[2]) != cur]
        if not dead:
            return st
        s = st.copy()
        for k in dead:
            del s.tmp[k]
        return s

    def arm_entries(self, fn):
        """element id -> list of (operator node id, decision): executing that element means the path entered
        the true arm / false arm of a ?: or the right operand of a && / || whose value is used later"""
        if fn.name in self._arm_cache:
            return self._arm_cache[fn.name]
        ops = []
        for n in fn.nodes.values():
            if n["k"] == "ConditionalOperator" and len(n.get("c", [])) == 3:
                ops.append((n["id"], {x["id"] for x in walk_nodes(n["c"][1])}, True))
                ops.append((n["id"], {x["id"] for x in walk_nodes(n["c"][2])}, False))
            elif n["k"] == "BinaryOperator" and n.get("op") in ("&&", "||"):
                ops.append((n["id"], {x["id"] for x in walk_nodes(n["c"][1])}, True))
        entry = {}
        order = []
        for bid in sorted(fn.cfg.blocks, reverse=True):
            for e in fn.cfg.blocks[bid].elems:
                order.append(e)
        for (nid, ids, dec) in ops:
            # every element of the arm that starts a block or is the first arm element in its block marks entry;
            # it is enough (and simplest) to mark all elements of the arm
            for e in ids:
                entry.setdefault(e, []).append((nid, dec))
        self._arm_cache[fn.name] = entry
        return entry

    def elem_ids(self, fn):
        if fn.name not in self._elem_cache:
            self._elem_cache[fn.name] = {e for B in fn.cfg.blocks.values() for e in B.elems}
        return self._elem_cache[fn.name]

    def drop_tmps(self, s, fn):
        ks = [k for k in s.tmp if k[0] == fn.name and k[1] in ("t", "br")]
        if not ks:
            return s
        s = s.copy()
        for k in ks:
            del s.tmp[k]
        return s

    def branch(self, B, edges, st, fn):
        if not edges:
            return []
        if B.termk == "SwitchStmt":
            cond = fn.nodes[B.tcond]
            v = self.rval(cond, st, fn)
            out = []
            case_vals = [lab[1] for (_, lab) in edges if lab[0] == "case"]
            for (succ, lab) in edges:
                if lab[0] == "case":
                    rv = frozenset(a for a in v if self.cmp_atoms("==", a, lab[1])[0])
                    if rv:
                        out.append((succ, self.refine_node(cond, frozenset({self.abs_int(lab[1])}) if is_int(lab[1]) else rv, st, fn)))
                else:
                    rv = frozenset(a for a in v if all(self.cmp_atoms("==", a, cv)[1] for cv in case_vals))
                    if rv:
                        out.append((succ, self.refine_node(cond, rv, st, fn)))
            return out
        if len(edges) == 2 and edges[0][1] == ("T",):
            cond = fn.nodes[B.tcond]
            ts, fs = self.split(cond, st, fn)
            out = []
            for s in ts:
                out.append((edges[0][0], s))
            for s in fs:
                out.append((edges[1][0], s))
            return out
        if len(edges) == 1 and edges[0][1] in (("T",), ("F",)):
            cond = fn.nodes[B.tcond]
            ts, fs = self.split(cond, st, fn)
            return [(edges[0][0], s) for s in (ts if edges[0][1] == ("T",) else fs)]
        return [(succ, st) for (succ, _) in edges]

    def split(self, cond, st, fn):
        """([states where cond may be true], [states where cond may be false]) with refinement"""
        c = strip(cond)
        if "val" in c and not has_side_effect_kind(c):
            return ([st], []) if c["val"] else ([], [st])
        k = c["k"]
        if k == "UnaryOperator" and c["op"] == "!":
            t, f = self.split(c["c"][0], st, fn)
            return f, t
        if k == "BinaryOperator" and c["op"] in ("&&", "||"):
            # value was computed on the way here (join block); use recorded decisions
            v = self.rval(c, st, fn)
            t, f = self.truth(v)
            return ([st] if t else []), ([st] if f else [])
        if k == "BinaryOperator" and c["op"] in ("==", "!=", "<", "<=", ">", ">="):
            a, b = c["c"]
            va = self.rval(a, st, fn)
            vb = self.rval(b, st, fn)
            op = c["op"]
            for h in self.hooks_cmp:
                h(self, fn, c, op, va, vb, st)
            ca, cb = self.single_cell(a, st, fn), self.single_cell(b, st, fn)
            res = []
            for o in (op, self.NEGOP[op]):
                ra = self.refine_cmp(o, va, vb)
                rb = self.refine_cmp(self.FLIP[o], vb, va)
                if not ra or not rb:
                    res.append([])
                    continue
                s = st
                # only refine against exact information (constants, null, tokens); comparing two
                # unknowns teaches nothing and would only multiply states
                if exact_set(vb):
                    s = self.refine_node(a, ra, s, fn)
                if exact_set(va):
                    s = self.refine_node(b, rb, s, fn)
                if ca is not None and cb is not None and o in ("<", "<=", ">", ">="):
                    fact = {"<": ("<", ca, cb), "<=": ("<=", ca, cb), ">": ("<", cb, ca), ">=": ("<=", cb, ca)}[o]
                    s = s.copy()
                    s.mon["rel"] = frozenset(s.mon.get("rel", frozenset()) | {fact})
                if o in ("<", "<=", ">", ">=") and len(va) == 1 and len(vb) == 1:
                    # what an ordering test against a constant tells about the *number* of a descriptor token on this branch
                    x, y = next(iter(va)), next(iter(vb))
                    ff = None
                    if isinstance(x, tuple) and x[0] == "fd" and is_int(y):
                        ff = (x, o, y)
                    elif isinstance(y, tuple) and y[0] == "fd" and is_int(x):
                        ff = (y, self.FLIP[o], x)
                    if ff is not None:
                        s = s.copy()
                        s.mon["fdrange"] = frozenset(s.mon.get("fdrange", frozenset()) | {ff})
                res.append([s])
            return res[0], res[1]
        # truthiness of a scalar
        v = self.rval(c, st, fn)
        tv = frozenset(a for a in v if self.truth(frozenset({a}))[0])
        fv = frozenset(a for a in v if self.truth(frozenset({a}))[1])
        ts = [self.refine_node(cond, self._nonzero(tv), st, fn)] if tv else []
        fs = [self.refine_node(cond, self._zero(fv), st, fn)] if fv else []
        return ts, fs

    def single_cell(self, n, st, fn):
        """the one strong cell an operand is loaded from, if it is a plain load"""
        n = strip_casts_keep_lv(n)
        if n["k"] == "ImplicitCastExpr" and n.get("ck") == "LValueToRValue":
            try:
                cells = self.lval(n["c"][0], st, fn)
            except AnalysisBroken:
                return None
            if len(cells) == 1 and not is_weak_cell(cells[0]):
                return cells[0]
        return None

    def _nonzero(self, v):
        return frozenset(a for a in v if a != 0 and a != "NULL")

    def _zero(self, v):
        out = set()
        for a in v:
            if a == "NULL" or a == 0:
                out.add(a)
            elif isinstance(a, tuple) and a[0] in ("fd", "ext"):
                out.add(0)
            else:
                out.add(a)
        return frozenset(out)

    def refine_node(self, n, val, st, fn):
        """record that expression n has a value in `val` on this path"""
        n = strip_casts_keep_lv(n)
        k = n["k"]
        if k in CALL_KINDS or (k == "BinaryOperator" and n["op"] == "=") or k == "CompoundAssignOperator" \
                or (k == "UnaryOperator" and n["op"] in ("++", "--")):
            key = (fn.name, "t", n["id"])
            if key in st.tmp:
                s = st.copy()
                s.tmp[key] = val
                if k == "BinaryOperator":
                    # (x = e) op c refines x as well
                    try:
                        cells = self.lval(n["c"][0], st, fn)
                        if len(cells) == 1 and not is_weak_cell(cells[0]):
                            s.mem[cells[0]] = val
                    except AnalysisBroken:
                        pass
                return s
            return st
        if (k == "ImplicitCastExpr" and n.get("ck") == "LValueToRValue") or \
                (k in ("DeclRefExpr", "MemberExpr", "ArraySubscriptExpr") and n.get("dk") not in ("enum", "func")) or \
                (k == "UnaryOperator" and n.get("op") == "*"):
            try:
                cells = self.lval(n["c"][0] if k == "ImplicitCastExpr" else n, st, fn)
            except AnalysisBroken:
                return st
            if len(cells) == 1 and not is_weak_cell(cells[0]):
                c = cells[0]
                if c[0] == "g" and c[1] == "errno":
                    return st
                return st.set_mem(c, val)
        return st


# ----------------------------------------------------------------- helpers

def exact_set(v):
    return all(a not in ("NEG", "POS", "PTR") and not (isinstance(a, tuple) and a[0] in ("sym",)) for a in v) and len(v) <= 4


def walk_nodes(n):
    stack = [n]
    while stack:
        x = stack.pop()
        yield x
        stack.extend(x.get("c", []))


def smash(cell):
    if cell[0] == "i":
        return ("i", cell[1], "*")
    return ("i", cell, "*")


def is_weak_cell(c):
    while True:
        if c[0] == "i" and c[2] == "*":
            return True
        if c[0] == "unk" or (c[0] == "heap" and c[1][2] == "many"):
            return True
        if c[0] in ("f", "i"):
            c = c[1]
        else:
            return False


def is_ptr_type(t):
    if not t:
        return False
    t = t.strip()
    return t.endswith("*") or t.endswith("* const") or t.endswith("*const") or "(*)" in t or t.endswith("* restrict") \
        or t.endswith("*restrict") or t.endswith("*__restrict")


def is_agg_ct(ct):
    if not ct:
        return False
    ct = ct.strip()
    if is_ptr_type(ct):
        return False
    return ct.startswith("struct ") or ct.startswith("union ") or ct.startswith("const struct ") or ct.endswith("]")


def is_agg_type(n):
    return is_agg_ct(n.get("ct") or n.get("t"))


def strip_lv(n):
    """strip parens and casts that do not change the designated object"""
    while True:
        k = n["k"]
        if k in ("ParenExpr", "ConstantExpr") and n.get("c"):
            n = n["c"][0]
        elif k == "UnaryOperator" and n.get("op") == "__extension__":
            n = n["c"][0]
        elif k in ("ImplicitCastExpr", "CStyleCastExpr") and n.get("ck") in ("NoOp", "LValueToRValue", "BitCast") and n.get("c"):
            n = n["c"][0]
        else:
            return n


def strip_casts_keep_lv(n):
    """strip parens and value casts, but stop at the LValueToRValue load"""
    while True:
        k = n["k"]
        if k in ("ParenExpr", "ConstantExpr") and n.get("c"):
            n = n["c"][0]
        elif k in ("ImplicitCastExpr", "CStyleCastExpr") and n.get("ck") != "LValueToRValue" and n.get("c"):
            n = n["c"][0]
        else:
            return n


def has_side_effect_kind(n):
    k = n["k"]
    return k in CALL_KINDS or k == "CompoundAssignOperator" or (k == "BinaryOperator" and n.get("op") == "=") \
        or (k == "UnaryOperator" and n.get("op") in ("++", "--"))


def is_effect_node(n):
    k = n["k"]
    return k in CALL_KINDS or k in ("DeclStmt", "VarDecl", "ReturnStmt", "CompoundAssignOperator") \
        or (k == "BinaryOperator" and n.get("op") == "=") \
        or (k == "UnaryOperator" and n.get("op") in ("++", "--"))
