"""Shared whole-path analyses of the start path (reproc_start -> process_start -> process_fork),
used by C04, C05, C06, C10, C11, C14, C15.  Three E-ABS runs, composed through verified summaries:

  process_fork   stand-alone, every libc call failing/succeeding             (exits -> classes, checked)
  process_start  with process_fork replaced by its outcome classes           (exits -> classes, checked)
  reproc_start   with process_start and parse_options replaced by classes    (exits inspected by the rules)
"""
from .facts import AnalysisBroken, expr_str
from .absint import State, atom_interval
from .models import fs
from .rulelib import *
from . import summaries as S


def open_fds(st):
    return [k for k, v in st.res.items() if k[0] == "fd" and v[0] == "open"]


def live_mem(st):
    return [k for k, v in st.res.items() if k[0] == "mem" and v[0] in ("live", "maybe-freed")]


def running_pids(st):
    return [k for k, v in st.res.items() if k[0] == "pid" and v[0] == "running"]


def fork_run(ctx, prog):
    return S.verify_fork_summary(ctx, prog, "SUM.fork")


def start_run(ctx, prog):
    """process_start analysed with the fork summary; returns (res, F, I, pcell)"""
    res, F, I = S.analyse_process_start(ctx, prog)
    p = [x for x in F.params if x["name"] == "process"][0]
    pcell = ("d", ("v", F.gdid(p["did"])))
    return res, F, I, pcell


def verify_start_summary(ctx, prog, rule="SUM.start"):
    res, F, I, pcell = start_run(ctx, prog)
    classes = set()
    for st, rv in res.exits:
        c = S.classify_start_exit(st, rv, pcell)
        site, node = ret_site(F, st)
        ctx.ob(rule, site + " [%s]" % (c or "unclassified"),
               "this exit of process_start is one of the summarised outcomes (<0: *process untouched, no child left / "
               "0 in the forked child / 1: *process = pid of the running child)", c is not None,
               {"returns": show(rv), "side": st.mon.get("proc"), "*process": show(st.mem.get(pcell)),
                "children": {str(k): v for k, v in st.res.items() if k[0] == "pid"}, "failed": st.mon.get("failed")},
               nontrivial=True)
        classes.add(c)
    need = {"fail", "child", "ok"}
    if not need <= classes and None not in classes:
        raise AnalysisBroken("process_start summary: outcome classes %s never produced" % sorted(need - classes))
    return res, F, I, pcell


def reproc_start_run(ctx, prog):
    return S.analyse_reproc_start(ctx, prog)


def handle_fields(st, obj):
    g = lambda *p: st.mem.get(_cell(obj, p))
    return {
        "status": g("status"), "handle": g("handle"),
        "pipe.in": g("pipe", "in"), "pipe.out": g("pipe", "out"), "pipe.err": g("pipe", "err"), "pipe.exit": g("pipe", "exit"),
        "child.out": g("child", "out"), "child.err": g("child", "err"),
    }


def _cell(obj, path):
    c = obj
    for p in path:
        c = ("f", c, p)
    return c


def is_fd(v):
    return v is not None and len(v) == 1 and isinstance(next(iter(v)), tuple) and next(iter(v))[0] == "fd"
