"""Shared whole-path analyses of the start path (reproc_start -> process_start -> process_fork),
used by C04, C05, C06, C10, C11, C14, C15.  Three E-ABS runs, composed through verified summaries:

  process_fork   stand-alone, every libc call failing/succeeding             (exits -> classes, checked)
  process_start  with process_fork replaced by its outcome classes           (exits -> classes, checked)
  reproc_start   with process_start and parse_options replaced by classes    (exits inspected by the rules)
"""
from .facts import AnalysisBroken, expr_str
from .absint import State, atom_interval
from .models import fs
from .rulelib import *
from . import summaries as S


def open_fds(st):
    return [k for k, v in st.res.items() if k[0] == "fd" and v[0] == "open"]


def live_mem(st):
    return [k for k, v in st.res.items() if k[0] == "mem" and v[0] in ("live", "maybe-freed")]


def running_pids(st):
    return [k for k, v in st.res.items() if k[0] == "pid" and v[0] == "running"]


def fork_run(ctx, prog):
    return S.verify_fork_summary(ctx, prog, "SUM.fork")


def start_run(ctx, prog):
    """process_start analysed with the fork summary; returns (res, F, I, pcell)"""
    res, F, I = S.analyse_process_start(ctx, prog)
    p = [x for x in F.params if x["name"] == "process"][0]
    pcell = ("d", ("v", F.gdid(p["did"])))
    return res, F, I, pcell


def verify_prepend_summary(ctx, prog, rule="SUM.prepend"):
    """the stand-in for path_prepend_cwd used in the process_start run says: NULL with errno set, or a fresh block"""
    F = prog.fn("path_prepend_cwd")
    I = new_interp(prog)
    st = State()
    for p in F.params:
        st.mem[("v", F.gdid(p["did"]))] = fs(("str", "<argv0>"))
    res = I.run(F, [st])
    seen = set()
    for s, rv in res.exits:
        site, node = ret_site(F, s)
        key = (site, s.mon.get("failed"), show(rv))
        if key in seen:
            continue
        seen.add(key)
        if rv == fs("NULL"):
            ctx.ob(rule, "path_prepend_cwd: " + site, "NULL is returned only after a library call failed in this call, so that errno - which "
                   "the caller turns into start's error code - is set (a NULL with errno 0 would make start report success without "
                   "any child) and nothing stays allocated", s.mon.get("failed") is not None and not live_mem(s),
                   {"failed_call": s.mon.get("failed")}, nontrivial=True)
        else:
            ctx.ob(rule, "path_prepend_cwd: " + site, "otherwise one live heap block is returned", "NULL" not in rv and
                   all(isinstance(a, tuple) and a[0] == "mem" and s.res.get(a) == ("live",) for a in rv) and set(live_mem(s)) == set(rv),
                   {"returns": show(rv)}, nontrivial=True)
    if not seen:
        raise AnalysisBroken("path_prepend_cwd has no exits")


def reap_target_rule(ctx, prog, rule="SUM.reap"):
    """every waitpid / kill on the start path targets the pid that fork() returned to this very call - never 0, -1 or another
    number (which would wait for, reap or signal some other child of the process, possibly another handle's)"""
    n = 0
    for tag, res in (("process_fork", fork_run(ctx, prog)), ("process_start", start_run(ctx, prog)[0])):
        seen = set()
        for e in res.events:
            if e[0] not in ("waitpid", "kill"):
                continue
            pidv = e[3][0]
            key = (e[0], site_of(e[1], e[2]), show(pidv))
            if key in seen:
                continue
            seen.add(key)
            n += 1
            ok = bool(pidv) and all(isinstance(a, tuple) and a[0] == "pid" for a in pidv)
            ctx.ob(rule, "%s [%s]" % (site_of(e[1], e[2]), tag), "the %s targets the child forked by this call (by its pid) and nothing else" %
                   ("reap" if e[0] == "waitpid" else "signal"), ok, {"pid_argument": show(pidv)}, nontrivial=True)
    return n


def parent_inheritable_rule(ctx, prog, rule):
    """no library descriptor is made inheritable (close-on-exec cleared) on the parent side of the start path: between that moment
    and the fork another thread's fork+exec would carry it into a foreign process - for the exit pipe's write end that keeps the
    pipe open after the child has died, and every wait then runs into its timeout"""
    res = start_run(ctx, prog)[0]
    bad = sorted({site_of(e[1], e[2]) for e in res.events if e[0] == "cloexec" and e[3][1] == fs(0)
                  and e[4] is not None and e[4].mon.get("proc") != "child"})
    ctx.ob(rule, "process_start [parent side]", "close-on-exec is cleared only in the forked child, never on a descriptor of the parent",
           not bad, {"cleared_in_the_parent_at": bad[:3]}, nontrivial=True)


def verify_start_summary(ctx, prog, rule="SUM.start"):
    verify_prepend_summary(ctx, prog)
    reap_target_rule(ctx, prog)
    res, F, I, pcell = start_run(ctx, prog)
    classes = set()
    for st, rv in res.exits:
        c = S.classify_start_exit(st, rv, pcell)
        site, node = ret_site(F, st)
        ctx.ob(rule, site + " [%s]" % (c or "unclassified"),
               "this exit of process_start is one of the summarised outcomes (<0: *process untouched, no child left / "
               "0 in the forked child / 1: *process = pid of the running child)", c is not None,
               {"returns": show(rv), "side": st.mon.get("proc"), "*process": show(st.mem.get(pcell)),
                "children": {str(k): v for k, v in st.res.items() if k[0] == "pid"}, "failed": st.mon.get("failed")},
               nontrivial=True)
        classes.add(c)
    need = {"fail", "child", "ok"}
    if not need <= classes and None not in classes:
        raise AnalysisBroken("process_start summary: outcome classes %s never produced" % sorted(need - classes))
    return res, F, I, pcell


def reproc_start_run(ctx, prog):
    return S.analyse_reproc_start(ctx, prog)


def handle_fields(st, obj):
    g = lambda *p: st.mem.get(_cell(obj, p))
    return {
        "status": g("status"), "handle": g("handle"),
        "pipe.in": g("pipe", "in"), "pipe.out": g("pipe", "out"), "pipe.err": g("pipe", "err"), "pipe.exit": g("pipe", "exit"),
        "child.out": g("child", "out"), "child.err": g("child", "err"),
    }


def _cell(obj, path):
    c = obj
    for p in path:
        c = ("f", c, p)
    return c


def is_fd(v):
    return v is not None and len(v) == 1 and isinstance(next(iter(v)), tuple) and next(iter(v))[0] == "fd"
