"""Obligations derived from the object-invariant runs of the exported functions (see apimodel.py).
Each property module selects the obligation families it owns."""
from .facts import AnalysisBroken, expr_str, strip
from .absint import State, atom_interval
from .models import fs
from .rulelib import *
from . import apimodel as A

# which shapes are misuse for which function (transcribed from reproc.h and property C14)
MISUSE = {
    "reproc_wait": ("NS", "CHILD"), "reproc_terminate": ("NS", "CHILD"), "reproc_kill": ("NS", "CHILD"),
    "reproc_stop": ("NS", "CHILD"), "reproc_pid": ("NS", "CHILD"),
    "reproc_read": ("CHILD",), "reproc_write": ("CHILD",), "reproc_close": ("CHILD",),
}
API = tuple(MISUSE) + ("reproc_destroy",)
MIN_COMBOS = ("reproc_stop", "reproc_destroy")
OS_EVENTS = ("kill", "waitpid", "close", "read", "write", "poll", "fork", "alloc", "free", "fd-create")


def run(ctx, prog, f, config_tag=None):
    # quick tier: stop/destroy from the handle states with all / none of the stream pipes open; thorough: all 8 combinations
    combos = "min" if (f in MIN_COMBOS and ctx.tier != "thorough") else "all"
    return A.run_api(ctx, prog, f, combos=combos, tag=config_tag)


_poll_cache = {}
SRC = ("g", "poll_sources")


def run_poll(ctx, prog):
    """reproc_poll on one source whose process is the handle, from every shape"""
    from . import summaries as S
    key = id(prog)
    if key in _poll_cache:
        return _poll_cache[key]
    F = prog.fn("reproc_poll")
    I = new_interp(prog, overrides=S.POLL_HELPERS)
    p = {x["name"]: ("v", F.gdid(x["did"])) for x in F.params}
    entries = []
    for label, st in A.shape_states(prog, combos="min"):
        st = st.copy()
        if st.mem.get(A.fcell("status"), 0) is None:
            st.mem[A.fcell("status")] = I.nonneg()
        st.mem[p["sources"]] = fs(("addr", ("i", SRC, 0)))
        st.mem[("f", ("i", SRC, 0), "process")] = fs(A.OBJ_TOK)
        st.mem[p["num_sources"]] = fs(1)
        st.mon["shape"] = label
        st.mon["nofail"] = True
        entries.append(st)
    res = I.run(F, entries)
    ctx.stats("E-ABS", I.stats)
    _poll_cache[key] = (res, F, I)
    return _poll_cache[key]


def shape_of(label):
    return label.split("[")[0]


def null_handle(ctx, prog, f):
    """entry with a null handle"""
    F = prog.fn(f)
    I = new_interp(prog)
    p = [x for x in F.params if x["name"] == "process"][0]
    st = State()
    st.mem[("v", F.gdid(p["did"]))] = fs("NULL")
    st.mon["nofail"] = True
    res = I.run(F, [st])
    ctx.stats("E-ABS", I.stats)
    return res, F, I


def ev_of(res, kinds, shape=None):
    out = []
    for e in res.events:
        if e[0] in kinds:
            st = e[4]
            if shape is None or (st is not None and shape_of(st.mon.get("shape", "")) == shape):
                out.append(e)
    return out


# --------------------------------------------------------------------------------- C14

def c14_guards(ctx, prog):
    EINVAL = prog.const("REPROC_EINVAL")
    for f in API:
        res, F, I = run(ctx, prog, f)
        # misuse states: EINVAL, nothing touched, nothing called
        for st, rv in res.exits:
            lab = st.mon.get("shape")
            sh = shape_of(lab)
            if sh in MISUSE.get(f, ()):
                entry = [s for (l, s) in A.shape_states(prog, combos="all") if l == lab]
                same = True
                if entry:
                    e0 = entry[0]
                    for c, v in e0.mem.items():
                        if v is not None and st.mem.get(c) != v:
                            same = False
                ctx.ob("C14.L1", "%s [%s]" % (f, sh), "called in a state where it is not allowed, the function returns the "
                       "invalid-argument error and leaves the handle untouched", rv == fs(EINVAL) and same,
                       {"returns": show(rv), "handle": A.fields(st)}, nontrivial=True)
        for sh in MISUSE.get(f, ()):
            evs = ev_of(res, OS_EVENTS, sh)
            ctx.ob("C14.L1s", "%s [%s]" % (f, sh), "in a misuse state no system call is made", not evs,
                   {"calls": sorted({(e[0], site_of(e[1], e[2])) for e in evs})[:5]}, nontrivial=True)
        # null handle
        rn, Fn, In = null_handle(ctx, prog, f)
        want = fs("NULL") if f == "reproc_destroy" else fs(EINVAL)
        derefs = [e for e in rn.events if e[0] == "null-deref"]
        ok = all(rv == want for st, rv in rn.exits) and not derefs and not ev_of(rn, OS_EVENTS)
        ctx.ob("C14.L1n", "%s [null handle]" % f, "a null handle is rejected (ignored by destroy) before any dereference",
               ok, {"returns": sorted({show(rv) for st, rv in rn.exits}), "dereferences": [site_of(e[1], e[2]) for e in derefs][:3]},
               nontrivial=True)
    ctx.floor("C14.L1", 13)


ALLOWED = {("NS", "NS"), ("CHILD", "CHILD"), ("RUN", "RUN"), ("RUN", "EXITED"), ("EXITED", "EXITED")}
MAY_EXIT = ("reproc_wait", "reproc_stop")


def c14_closure(ctx, prog):
    for f in API + ("reproc_poll",):
        if f == "reproc_destroy":
            continue
        res, F, I = run_poll(ctx, prog) if f == "reproc_poll" else run(ctx, prog, f)
        seen = set()
        for st, rv in res.exits:
            lab = st.mon.get("shape")
            sh0 = shape_of(lab)
            sh1, why = A.classify(prog, I, st)
            key = (lab, sh1, why, all_nonneg(rv))
            if key in seen:
                continue
            seen.add(key)
            ok = sh1 is not None and (sh0, sh1) in ALLOWED and ((sh0, sh1) != ("RUN", "EXITED") or f in MAY_EXIT)
            ctx.ob("C14.L2", "%s [%s -> %s]" % (f, lab, sh1 or "?"), "the handle is left in a state of the life cycle "
                   "(not started / running / exited / in child), reached by an allowed transition, with every pipe field "
                   "invalid or a valid open descriptor", ok, {"why": why, "returns": show(rv), "handle": A.fields(st)}, nontrivial=True)
    ctx.floor("C14.L2", 40)


def c14_bounds(ctx, prog):
    """L5: no exported function indexes a local array outside its declared bounds, for any argument values"""
    n = 0
    for f in API + ("reproc_poll",):
        res, F, I = run_poll(ctx, prog) if f == "reproc_poll" else run(ctx, prog, f)
        oob = [e for e in res.events if e[0] == "oob"]
        ctx.ob("C14.L5", f, "no local array is indexed outside its bounds, whatever the (valid-pointer) arguments are", not oob,
               {"accesses": sorted({(site_of(e[1], e[2]), show(e[3][0])[:40], e[3][1]) for e in oob})[:4]}, nontrivial=True)


def c14_tables(ctx, prog):
    """L5t: counted tables (the caller's source array, the pipe table, the pollfd array, descriptor sets, small local arrays) are
    never indexed at or beyond their element count, for every count - linear bounds, see sa/tablebounds.py"""
    from . import tablebounds as TB
    helpers = TB.find_index_helpers(prog)
    total = 0
    undet = []
    for F in prog.funcs_all:
        if not F.file.startswith(prog.root) or "/test/" in F.file or "/examples/" in F.file:
            continue

        def report(kind, node, table, ok, det, F=F):
            if ok is None:
                raise AnalysisBroken("C14.L5t: %s: %s" % (site_of(F, node), det.get("why")))
            if kind == "undetermined":
                undet.append("%s:%d %s" % (F.name, node["l"][0], expr_str(node)[:40]))
                return
            if kind == "subscript":
                ctx.ob("C14.L5t", "%s:%d %s" % (F.name, node["l"][0], expr_str(node)[:50]), "the largest value the index can take is below the "
                       "number of elements of `%s`, whatever the element count is" % table, ok, det, nontrivial=True)
            else:
                ctx.ob("C14.L5t", "%s:%d %s" % (F.name, node["l"][0], expr_str(node)[:50]), "the count handed on with `%s` does not exceed its "
                       "number of elements" % table, ok, det, nontrivial=True)
        total += TB.check_function(prog, F, helpers, report)
    # shifts: the amount stays below the width of the shifted operand (event bit = 1 << slot index)
    for F in prog.funcs_all:
        if not F.file.startswith(prog.root) or "/test/" in F.file or "/examples/" in F.file:
            continue

        def rep(node, ok, det, F=F):
            if ok is None:
                undet.append("%s:%d %s" % (F.name, node["l"][0], expr_str(node)[:40]))
                return
            ctx.ob("C14.L5s", "%s:%d %s" % (F.name, node["l"][0], expr_str(node)[:40]), "the shift amount is non-negative and below the width "
                   "of the shifted operand on every path", ok, det)
        TB.check_shifts(prog, F, rep)
    ctx.extra["table_subscripts_without_verdict"] = undet[:20]
    ctx.floor("C14.L5t", 60)
    # L5v: storage whose size follows a count is taken from the heap (where a shortage is an error return), not from the stack:
    # a variable-length array or alloca() sized by an unbounded count runs off the calling thread's stack
    import re
    from .rulelib import const_of
    vlas = []
    nfun = 0
    for F in prog.funcs_all:
        if not F.file.startswith(prog.root) or "/test/" in F.file or "/examples/" in F.file:
            continue
        nfun += 1
        for n in F.nodes.values():
            names = []
            if n["k"] == "VarDecl":
                for dim in re.findall(r"\[([^\]]*)\]", n.get("ct") or n.get("t") or ""):
                    if re.search(r"[A-Za-z_]", dim):
                        names += re.findall(r"[A-Za-z_][A-Za-z_0-9]*", dim)
            elif n["k"] in ("CallExpr",) and n.get("callee") in ("alloca", "__builtin_alloca") and const_of(prog, n["c"][1]) is None:
                names += [x["name"] for x in walk_nodes(n["c"][1]) if x["k"] == "DeclRefExpr"]
            if not names:
                continue
            bounded = False
            for c in F.nodes.values():
                if c["k"] == "BinaryOperator" and c["op"] in ("<", "<=", ">", ">="):
                    a, b = strip(c["c"][0]), strip(c["c"][1])
                    for x, y in ((a, b), (b, a)):
                        k = const_of(prog, y)
                        if x["k"] == "DeclRefExpr" and x.get("name") in names and k is not None and 0 <= k <= 65536 and c["l"][0] <= n["l"][0]:
                            bounded = True
            if not bounded:
                vlas.append("%s:%d %s" % (F.name, n["l"][0], expr_str(n)[:60]))
    ctx.ob("C14.L5v", "library: stack storage sized at run time", "no variable-length array or alloca() takes its size from a count that the "
           "function has not first compared with a small constant (a valid but large table must end in an error return, not in a "
           "stack overflow)", not vlas, {"functions_scanned": nfun, "sites": vlas[:4]})


def c14_streams(ctx, prog):
    EPIPE = prog.const("REPROC_EPIPE")
    inv = fs(prog.const("PIPE_INVALID"))
    for f, fld, evk in (("reproc_read", None, "read"), ("reproc_write", "in", "write")):
        res, F, I = run(ctx, prog, f)
        # reads/writes on an invalid pipe field return EPIPE without touching the OS
        for e in ev_of(res, (evk,)):
            st = e[4]
            fdv = e[3][0]
            ok = all(isinstance(a, tuple) and a[0] == "fd" and st.res.get(a, ("?",))[0] == "open" for a in fdv)
            ctx.ob("C14.L3", "%s: %s" % (f, site_of(e[1], e[2])), "the OS %s is only ever issued on a valid, open descriptor "
                   "of the handle" % evk, ok, {"fd": show(fdv), "shape": st.mon.get("shape")}, nontrivial=True)
    res, F, I = run(ctx, prog, "reproc_close")
    ctx.ob("C14.L3c", "reproc_close", "closing a stream never closes an already closed descriptor (idempotent)",
           not ev_of(res, ("double-close", "close-raw", "close-foreign")), None, nontrivial=True)
    for st, rv in res.exits:
        if shape_of(st.mon.get("shape")) == "CHILD":
            continue
        ok = rv in (fs(0), fs(prog.const("REPROC_EINVAL")))
        ctx.ob("C14.L3r", "reproc_close [%s]" % st.mon.get("shape"), "close returns 0 or (for a stream value outside the enum) "
               "the invalid-argument error", ok, {"returns": show(rv)})


def c14_asserts(ctx):
    """stated beliefs (ASSERT) are discharged: with assertions compiled in, no assertion failure is feasible from
    any state of the invariant, nor on the start path"""
    prog = ctx.prog("posix-mt-assert")
    n = 0
    for f in API:
        res, F, I = run(ctx, prog, f, "assert")
        fails, env = belief_failures(prog, res)
        ctx.ob("C14.L4", f, "no assertion about library state in this function or its callees can fail from any state of the "
               "handle invariant (assertions on the result of a libc call are statements about the OS and are not counted)",
               not fails, {"failing": ["%s:%d %s" % (k[0], k[1], assert_text(v[0], v[1])) for k, v in fails.items()][:6],
                           "environment_assertions_skipped": sorted(env)}, nontrivial=True)
    from . import summaries as S
    res, F, I, obj = S.analyse_reproc_start(ctx, prog)
    fails, env = belief_failures(prog, res)
    ctx.ob("C14.L4", "reproc_start", "no assertion on the start path (reproc_start, redirect_init, setup_input, pipe_*) can fail "
           "for any option combination the validator accepts", not fails,
           {"failing": ["%s:%d %s" % (k[0], k[1], assert_text(v[0], v[1])) for k, v in fails.items()][:6]}, nontrivial=True)
    res, F, I, pcell = __import__("sa.startpath", fromlist=["x"]).start_run(ctx, prog)
    fails, env = belief_failures(prog, res)
    ctx.ob("C14.L4", "process_start", "no assertion in process_start/process_fork can fail", not fails,
           {"failing": ["%s:%d %s" % (k[0], k[1], assert_text(v[0], v[1])) for k, v in fails.items()][:6]}, nontrivial=True)


_wrapper_cache = {}


def libc_wrappers(prog):
    """internal functions that merely hand on the result of one libc call (value or -errno): pipe_write, pipe_read, ...
    An assertion about their result is, like one about the libc call itself, a statement about the OS."""
    key = id(prog)
    if key in _wrapper_cache:
        return _wrapper_cache[key]
    out = set()
    for F in prog.funcs_all:
        ext = [x for x in F.walk() if x["k"] == "CallExpr" and x.get("callee") and x["callee"] not in prog.funcs
               and x["callee"] not in ("__assert_fail", "__errno_location")]
        internal = [x for x in F.walk() if x["k"] == "CallExpr" and x.get("callee") in prog.funcs]
        if len(ext) != 1 or internal:
            continue
        var = None
        par = F.nodes.get(F.parent.get(ext[0]["id"]))
        while par is not None and par["k"] in ("ImplicitCastExpr", "CStyleCastExpr", "ParenExpr"):
            par = F.nodes.get(F.parent.get(par["id"]))
        if par is not None and par["k"] == "VarDecl":
            var = par["name"]
        elif par is not None and par["k"] == "BinaryOperator" and par["op"] == "=":
            var = expr_str(strip(par["c"][0]))
        rets = [x for x in F.walk() if x["k"] == "ReturnStmt" and x.get("c")]
        if var and rets and all(any(y["k"] == "DeclRefExpr" and y["name"] == var for y in walk_nodes(x)) or "val" in strip(x["c"][0])
                                or any(y["k"] == "CallExpr" and y.get("callee") == "__errno_location" for y in walk_nodes(x)) for x in rets):
            out.add(F.name)
    _wrapper_cache[key] = out
    return out


def env_assert(prog, fn, node):
    """is the failed assertion a statement about the result of a libc call (environment), not about library state?
    True if a variable of the asserted expression is defined in this function from the result of an external call or of an
    internal function that merely wraps one."""
    cond = None
    for a in fn.ancestors(node):
        if a["k"] == "ConditionalOperator":
            cond = a["c"][0]
            break
    if cond is None:
        return False
    wrappers = libc_wrappers(prog)
    names = {x["did"] for x in walk_nodes(cond) if x["k"] == "DeclRefExpr" and x.get("dk") in ("local",)}
    for d in fn.nodes.values():
        tgt = None
        rhs = None
        if d["k"] == "VarDecl" and d.get("c"):
            tgt, rhs = d["did"], d["c"][0]
        elif d["k"] == "BinaryOperator" and d.get("op") == "=":
            l = strip(d["c"][0])
            if l["k"] == "DeclRefExpr":
                tgt, rhs = l["did"], d["c"][1]
        if tgt in names and rhs is not None:
            r = strip(rhs)
            if r["k"] == "CallExpr" and r.get("callee") and (r["callee"] not in prog.funcs or r["callee"] in wrappers):
                return True
    return False


def belief_failures(prog, res):
    fails = {}
    env = set()
    for st, node, fn in res.aborts:
        if node.get("callee") == "__assert_fail":
            if env_assert(prog, fn, node):
                env.add((fn.name, assert_text(fn, node)))
            else:
                fails.setdefault((fn.name, node["l"][0]), (fn, node, st))
    return fails, env


def assert_text(fn, node):
    for a in node["c"][1:2]:
        s = strip(a)
        for x in walk_nodes(a):
            if x["k"] == "StringLiteral":
                return x.get("str", "")
    return ""


# --------------------------------------------------------------------------------- C06

def c06_targets(ctx, prog):
    SIG = {"process_terminate": 15, "process_kill": 9}
    nk = nw = 0
    for f in API:
        res, F, I = run(ctx, prog, f)
        seen = set()
        for e in ev_of(res, ("kill",)):
            kind, fn, node, info, st, stack = e[:6]
            pidv, sigv = info
            key = (fn.name, node["id"], show(pidv), st.mon.get("shape"))
            if key in seen:
                continue
            seen.add(key)
            # which signal: the value that reaches kill(), and which of the two library-level senders is on the call stack
            sv = info[1]
            sigc = next(iter(sv)) if sv is not None and len(sv) == 1 else None
            want = [SIG[x] for x in stack if x in SIG]
            ok = pidv == fs(A.PID) and st.res.get(A.PID) in (("running",), ("gone",)) and len(want) == 1 and sigc == want[0] \
                and shape_of(st.mon.get("shape")) == "RUN"
            ctx.ob("C06.K1", "%s via %s" % (site_of(fn, node), f), "a signal is sent only to the positive pid of the handle's own "
                   "child, only while it is running and unreaped, and it is SIGTERM in terminate / SIGKILL in kill", ok,
                   {"pid": show(pidv), "signal": sigc, "child": st.res.get(A.PID), "shape": st.mon.get("shape")}, nontrivial=True)
            nk += 1
        for e in ev_of(res, ("waitpid",)):
            kind, fn, node, info, st, stack = e[:6]
            pidv, optv = info
            key = (fn.name, node["id"], show(pidv), st.mon.get("shape"))
            if key in seen:
                continue
            seen.add(key)
            ok = pidv == fs(A.PID) and st.res.get(A.PID) in (("running",), ("gone",)) and optv == fs(0) and shape_of(st.mon.get("shape")) == "RUN"
            ctx.ob("C06.K2", "%s via %s" % (site_of(fn, node), f), "the reap targets the handle's own child, only while it has not "
                   "been reaped, and blocks for termination only (options 0)", ok,
                   {"pid": show(pidv), "options": show(optv), "child": st.res.get(A.PID), "shape": st.mon.get("shape")}, nontrivial=True)
            nw += 1
        dr = ev_of(res, ("double-reap",))
        ctx.ob("C06.K2d", f, "no second reap of an already reaped child", not dr, None, nontrivial=True)
        for sh in ("EXITED", "NS", "CHILD"):
            evs = ev_of(res, ("kill", "waitpid"), sh)
            ctx.ob("C06.K4", "%s [%s]" % (f, sh), "nothing is signalled or waited for unless the handle is running (after a "
                   "successful wait terminate and kill send nothing)", not evs, {"calls": [site_of(e[1], e[2]) for e in evs][:4]},
                   nontrivial=True)
    if nk < 4 or nw < 2:
        raise AnalysisBroken("C06: only %d kill and %d waitpid events seen from the API functions" % (nk, nw))
    # who may call
    allowed_kill = {"process_terminate", "process_kill"}
    allowed_wait = {"process_wait", "process_fork", "process_start"}
    def only_from(fname, allowed, seen=None):
        """the function is one of `allowed` or a helper whose every caller (transitively) is"""
        seen = seen or set()
        if fname in allowed:
            return True
        if fname in seen:
            return False
        seen.add(fname)
        callers = {Fx.name for Fx in prog.funcs_all for c in Fx.calls(fname)}
        return bool(callers) and all(only_from(c, allowed, seen) for c in callers)
    for name, allowed in (("kill", allowed_kill), ("waitpid", allowed_wait), ("waitid", allowed_wait)):
        for F, n in callsites(prog, name):
            ctx.ob("C06.K0", site_of(F, n), "%s is called only from %s (or a helper only they use)" % (name, sorted(allowed)),
                   only_from(F.name, allowed), {"line": n["l"][0]})
    for name in ("killpg", "raise", "sigqueue", "pthread_kill", "tgkill", "wait", "wait3", "wait4"):
        for F, n in callsites(prog, name):
            ctx.ob("C06.K0", site_of(F, n), "no other signalling / reaping primitive is used", False, {"line": n["l"][0]})
    ctx.floor("C06.K0", 4)


# --------------------------------------------------------------------------------- C05 (API part)

def c05_api(ctx, prog):
    for f in API + ("reproc_poll",):
        res, F, I = run_poll(ctx, prog) if f == "reproc_poll" else run(ctx, prog, f)
        bad = ev_of(res, ("double-close", "close-foreign", "close-raw", "double-free", "free-nonheap", "close-ambiguous"))
        ctx.ob("C05.O2", f, "never closes a descriptor twice, never closes one it does not own, never frees twice",
               not bad, {"events": sorted({(e[0], site_of(e[1], e[2]), show(e[3])) for e in bad})[:5]}, nontrivial=True)
        seen = set()
        for st, rv in res.exits:
            refd = set()
            for c, v in st.mem.items():
                if A.OBJ == c or (len(c) > 1 and cell_base(c) == A.OBJ):
                    for a in v or ():
                        if isinstance(a, tuple):
                            refd.add(a)
            leaked = [k for k, v in st.res.items() if k[0] == "fd" and v[0] == "open" and k not in refd]
            if f == "reproc_destroy":
                leaked = [k for k, v in st.res.items() if k[0] == "fd" and v[0] == "open"]
            mem = [k for k, v in st.res.items() if k[0] == "mem" and v[0] in ("live", "maybe-freed") and (k != A.OBJ_TOK or f == "reproc_destroy")]
            key = (st.mon.get("shape"), tuple(leaked), tuple(mem))
            if key in seen:
                continue
            seen.add(key)
            ctx.ob("C05.O3", "%s [%s]" % (f, st.mon.get("shape")), "on return every open descriptor of the library is held in a "
                   "handle field (destroy: none is left) and every allocation made by the call has been freed",
                   not leaked and not mem, {"unreferenced_open": [str(x) for x in leaked], "live_allocations": [str(x) for x in mem],
                                            "returns": show(rv)}, nontrivial=True)
    ctx.floor("C05.O3", 30)


def start_closure(ctx, prog, rule):
    """every exit of reproc_start (all-paths run) leaves the handle in a shape of the invariant: not started with every field
    invalid and no deadline (failure), running (returned 1), in-child (returned 0); no field keeps a closed descriptor number"""
    from . import startpath as SP
    res, F, I, obj = SP.reproc_start_run(ctx, prog)
    seen = set()
    for st, rv in res.exits:
        sh1, why = A.classify(prog, I, st, obj)
        want = "RUN" if rv == fs(1) else "CHILD" if rv == fs(0) else "NS"
        key = (sh1, why, want)
        if key in seen:
            continue
        seen.add(key)
        ctx.ob(rule, "reproc_start [-> %s]" % (sh1 or "?"), "start leaves the handle not started with every field invalid (failure), running "
               "(returned 1) or in-child (returned 0); no field is left holding the number of a descriptor that was already closed",
               sh1 == want, {"why": why, "returns": show(rv)[:40], "handle": A.fields(st, obj)}, nontrivial=True)
    ctx.floor(rule, 3)


def exited_is_quiet(ctx, prog, rule, funcs=("reproc_wait", "reproc_terminate", "reproc_kill", "reproc_stop")):
    """from the exited state nothing is signalled or reaped, and stop/wait return the cached status"""
    for f in funcs:
        res, F, I = run(ctx, prog, f)
        evs = ev_of(res, ("kill", "waitpid"), "EXITED")
        bad_ret = []
        for st, rv in res.exits:
            if shape_of(st.mon.get("shape")) != "EXITED":
                continue
            status = st.mem.get(A.fcell("status"))
            if f in ("reproc_terminate", "reproc_kill"):
                ok = rv == fs(0)
            elif f == "reproc_wait":
                ok = rv == status
            else:
                ok = rv == status or rv == fs(prog.const("REPROC_EINVAL")) or rv == fs(-1)
            if not ok:
                bad_ret.append(show(rv)[:40])
        ctx.ob(rule, "%s [exited]" % f, "once the child has been reaped this call signals nothing, reaps nothing and returns the cached "
               "status (terminate/kill: 0)", not evs and not bad_ret, {"calls": [site_of(e[1], e[2]) for e in evs][:3], "returns": sorted(set(bad_ret))[:3]},
               nontrivial=True)
