"""E-LIN for counted tables: every subscript of a table stays below the table's element count, for every count.

A *table* is (a) a pointer parameter immediately followed by an integer parameter named num_* / *_size / *count* / size
(the caller promises that many elements), (b) a local pointer whose definitions are calloc(n, ..) results or local arrays,
(c) a local array T x[N].  For each subscript table[E] inside counted loops `for (i = 0; i < B; i++)` the largest value of
E is computed as a linear form (loop variables at B-1, single-definition locals substituted, E/c handled when the
numerator's bound is a multiple of c minus a remainder) and compared with the capacity; capacities that depend on a
condition (`p = stack; if (n > K) p = calloc(n..)`) are compared under that condition.  Calls that hand a table and a
count on (library functions with a table parameter pair, poll(2)) must pass a count not larger than the capacity.
Index-returning helpers (a local that is 0 or a loop variable below the count) bound the variables they initialise.

All symbols are unsigned quantities (size_t) in the functions this is applied to; a linear form is >= 0 when its constant
is >= 0 after replacing every symbol with a negative coefficient by its known upper bound (none known: not provable)."""
from .facts import strip, expr_str, AnalysisBroken
from .absint import walk_nodes
from . import linexpr as L

COUNT_NAMES = ("num_", "count", "size", "len")
LIBC_TABLE_CONSUMERS = {"poll": (1, 2)}          # callee -> (index of table argument, index of count argument), 1-based in node["c"]


def _is_count_name(name):
    return name.startswith("num_") or name in ("size", "count", "len", "length") or name.endswith("_size") or name.endswith("_count")


def table_params(F):
    """{pointer param name: count param name}"""
    out = {}
    ps = F.params
    for a, b in zip(ps, ps[1:]):
        ta, tb = a.get("t") or "", b.get("t") or ""
        if "*" in ta and "*" not in tb and _is_count_name(b["name"]):
            out[a["name"]] = b["name"]
    return out


def assigned_names(F):
    """names written other than by their declaration: name -> [nodes]"""
    w = {}
    for n in F.walk():
        tgt = None
        if n["k"] in ("BinaryOperator", "CompoundAssignOperator") and n.get("op", "").endswith("=") and n["op"] not in ("==", "!=", "<=", ">="):
            tgt = strip(n["c"][0])
        elif n["k"] == "UnaryOperator" and n["op"] in ("++", "--"):
            tgt = strip(n["c"][0])
        if tgt is not None and tgt["k"] == "DeclRefExpr":
            w.setdefault(tgt["name"], []).append(n)
    return w


def cond_bound(c, env):
    """(linear form f, op) meaning f <op> 0 for simple comparisons a REL b -> (a - b, REL)"""
    c = strip(c)
    if c["k"] == "UnaryOperator" and c["op"] == "!":
        r = cond_bound(c["c"][0], env)
        if r is None:
            return None
        f, op = r
        return f, {"<": ">=", "<=": ">", ">": "<=", ">=": "<", "==": "!=", "!=": "=="}[op]
    if c["k"] == "BinaryOperator" and c["op"] in ("<", "<=", ">", ">=", "==", "!="):
        a, b = L.lin(c["c"][0], env), L.lin(c["c"][1], env)
        if a is None or b is None:
            return None
        return L.add(a, L.scale(b, -1)), c["op"]
    return None


def upper_bounds_from(f, op):
    """from f <op> 0 derive {symbol: upper bound form} when f = k*sym + rest with k > 0 (sym <= -rest/k ...) - only the simple
    case of one symbol with coefficient 1 (or a positive k dividing the constant) is used"""
    out = {}
    syms = [s for s in f if s != 1]
    if len(syms) != 1:
        return out
    s = syms[0]
    k = f[s]
    c = f.get(1, 0)
    if k <= 0:
        return out
    # k*s + c <= 0  ->  s <= floor(-c / k);   k*s + c < 0 -> s <= floor((-c - 1) / k)
    if op == "<=":
        out[s] = (-c) // k
    elif op == "<":
        out[s] = (-c - 1) // k
    elif op == "==":
        if (-c) % k == 0:
            out[s] = (-c) // k
    return out


def lower_bounds_from(f, op):
    out = {}
    syms = [s for s in f if s != 1]
    if len(syms) != 1:
        return out
    s = syms[0]
    k = f[s]
    c = f.get(1, 0)
    if k <= 0:
        return out
    # k*s + c >= 0 -> s >= ceil(-c/k);  > 0 -> s >= floor(-c/k) + 1
    if op == ">=":
        out[s] = -((c) // k)
    elif op == ">":
        out[s] = (-c) // k + 1
    return out


def min_value(f, ub, lb):
    """a sound lower bound of the linear form f (None when none is known)"""
    total = f.get(1, 0)
    for s, k in f.items():
        if s == 1:
            continue
        if k > 0:
            total += k * lb.get(s, 0)
        else:
            if s not in ub:
                return None
            total += k * ub[s]
    return total


class FnTables:
    def __init__(self, prog, F, index_helpers):
        self.prog, self.F = prog, F
        self.written = assigned_names(F)
        self.tp = table_params(F)
        self.index_helpers = index_helpers
        self.env = {}
        self.sym_ub = {}       # symbol -> linear form it does not exceed (e.g. earliest <= num_sources - 1)
        self.facts_lb = {}     # symbol -> constant lower bound established by an early return guard
        self.tables = {}       # name -> [(capacity form, guard (f, op) or None)]
        self.unguarded_index = {}
        self.cond_defs = {}    # single-definition locals initialised with c ? a : b
        self._collect()

    def _collect(self):
        F = self.F
        for name, cnt in self.tp.items():
            if name not in self.written:
                self.tables[name] = [({cnt: 1}, None)]
        order = sorted(F.walk(), key=lambda x: x["id"])
        # early-return guards at the top level: if (!(X > 0)) return ...
        for n in order:
            if n["k"] == "IfStmt" and n.get("else") is None:
                then = F.nodes[n["then"]]
                if any(x["k"] == "ReturnStmt" for x in walk_nodes(then)) and not any(a["k"] in ("ForStmt", "WhileStmt") for a in F.ancestors(n)):
                    r = cond_bound(F.nodes[n["cond"]], {})
                    if r:
                        f, op = r
                        neg = {"<": ">=", "<=": ">", ">": "<=", ">=": "<", "==": "!=", "!=": "=="}[op]
                        for s, v in lower_bounds_from(f, neg).items():
                            if s not in self.written:
                                self.facts_lb[s] = max(self.facts_lb.get(s, 0), v)
        for n in order:
            if n["k"] != "VarDecl":
                continue
            name = n["name"]
            t = n.get("t") or ""
            import re
            m = re.search(r"\[(\d+)\]", n.get("ct") or t)
            if m and "*" not in t.split("[")[0]:
                self.tables[name] = [({1: int(m.group(1))}, None)]
                continue
            if not n.get("c"):
                continue
            init = strip(n["c"][0])
            if "*" in t:
                if init.get("null") or init.get("val") == 0 or expr_str(init) in ("NULL", "0", "((void *)0)"):
                    ws = self.written.get(name, [])
                    if len(ws) == 1 and ws[0]["k"] == "BinaryOperator" and ws[0]["op"] == "=":
                        c1 = self._cap_of(strip(ws[0]["c"][1]))
                        if c1 is not None and not any(str(sy) in self.written for sy in c1 if sy != 1):
                            self.tables[name] = [(c1, None)]     # NULL until the one allocation; a NULL table is not subscripted (C14.L4/L5)
                    continue
                cap = self._cap_of(init)
                if cap is not None and any(str(sy) in self.written for sy in cap if sy != 1):
                    cap = None         # capacity counted up in a loop (NULL-terminated vectors): not a counted table, other rules apply
                if cap is not None:
                    alts = [(cap, None)]
                    for w in self.written.get(name, []):
                        if w["k"] == "BinaryOperator" and w["op"] == "=":
                            c2 = self._cap_of(strip(w["c"][1]))
                            g = self._guard_of(w)
                            if c2 is None or g is None:
                                alts = None
                                break
                            f, op = g
                            neg = {"<": ">=", "<=": ">", ">": "<=", ">=": "<", "==": "!=", "!=": "=="}[op]
                            alts = [(alts[0][0], (f, neg)), (c2, (f, op))]
                        else:
                            alts = None
                            break
                    if alts:
                        self.tables[name] = alts
                continue
            if name in self.written:
                continue
            if init["k"] == "CallExpr" and init.get("callee") in self.index_helpers:
                targ, carg = self.index_helpers[init["callee"]]
                cf = L.lin(init["c"][carg], self.env)
                # an index below the count exists only when the count is at least 1 (established by an early-return guard)
                if cf is not None and (min_value(cf, {}, self.facts_lb) or 0) >= 1:
                    self.sym_ub[name] = L.add(cf, {1: -1})
                elif cf is not None:
                    self.unguarded_index[name] = cf      # index 0 comes back even for an empty table
                continue
            if init["k"] == "ConditionalOperator":
                self.cond_defs[name] = init
                continue
            f = L.lin(init, self.env)
            if f is not None and init["k"] not in ("CallExpr",) and all(isinstance(s, int) or not any(ch in str(s) for ch in "([") or True for s in f):
                self.env[name] = f

    def _cap_of(self, x):
        x = strip(x)
        if x["k"] == "CallExpr" and x.get("callee") == "calloc":
            return L.lin(x["c"][1], self.env)
        if x["k"] == "DeclRefExpr" and x["name"] in self.tables and len(self.tables[x["name"]]) == 1:
            return self.tables[x["name"]][0][0]
        return None

    def _guard_of(self, node):
        conds = []
        child = node
        for a in self.F.ancestors(node):
            if a["k"] == "IfStmt":
                inthen = child["id"] in {x["id"] for x in walk_nodes(self.F.nodes[a["then"]])}
                r = cond_bound(self.F.nodes[a["cond"]], self.env)
                if r is None:
                    return None
                f, op = r
                if not inthen:
                    op = {"<": ">=", "<=": ">", ">": "<=", ">=": "<", "==": "!=", "!=": "=="}[op]
                conds.append((f, op))
            elif a["k"] in ("ForStmt", "WhileStmt", "DoStmt"):
                return None
            child = a
        return conds[0] if len(conds) == 1 else None

    def loop_bounds(self, node):
        """{loop variable: linear upper bound (inclusive)} from enclosing counted for-loops; None if a loop variable is
        modified inside the body"""
        out = {}
        for a in self.F.ancestors(node):
            if a["k"] != "ForStmt" or a.get("cond") is None or a.get("init") is None:
                continue
            vd = [x for x in walk_nodes(self.F.nodes[a["init"]]) if x["k"] == "VarDecl"]
            if len(vd) != 1:
                continue
            v = vd[0]["name"]
            lo = L.lin(vd[0]["c"][0], self.env) if vd[0].get("c") else None
            c = strip(self.F.nodes[a["cond"]])
            if c["k"] != "BinaryOperator" or c["op"] not in ("<", "<=") or expr_str(strip(c["c"][0])) != v:
                continue
            B = L.lin(c["c"][1], self.env)
            if B is None or lo is None or min_value(lo, {}, self.facts_lb) is None or min_value(lo, {}, self.facts_lb) < 0:
                continue
            body_ids = {x["id"] for x in walk_nodes(self.F.nodes[a["body"]])}
            if any(w["id"] in body_ids for w in self.written.get(v, [])):
                return None
            out[v] = B if c["op"] == "<=" else L.add(B, {1: -1})
        return out

    def max_of(self, e, bounds):
        """linear form that e does not exceed, or None"""
        e = strip(e)
        if e["k"] == "BinaryOperator" and e["op"] == "/":
            num = self.max_of(e["c"][0], bounds)
            den = L.lin(e["c"][1], self.env)
            if num is None or den is None or set(den) - {1} or den.get(1, 0) <= 0:
                return None
            c = den[1]
            if any(k != 1 and v % c for k, v in num.items()):
                return None
            out = {k: v // c for k, v in num.items() if k != 1}
            out[1] = num.get(1, 0) // c
            return {k: v for k, v in out.items() if v != 0 or k == 1}
        if e["k"] == "BinaryOperator" and e["op"] in ("+",):
            a, b = self.max_of(e["c"][0], bounds), self.max_of(e["c"][1], bounds)
            return None if a is None or b is None else L.add(a, b)
        if e["k"] == "ConditionalOperator":
            a, b = self.max_of(e["c"][1], bounds), self.max_of(e["c"][2], bounds)
            if a is None or b is None:
                return None
            if a == b:
                return a
            if not (set(a) - {1}) and not (set(b) - {1}):
                return {1: max(a.get(1, 0), b.get(1, 0))}
            return None
        if e["k"] == "DeclRefExpr" and e["name"] in self.cond_defs:
            return self.max_of(self.cond_defs[e["name"]], bounds)
        f = L.lin(e, self.env)
        if f is None:
            return None
        free = {p["name"] for p in self.F.params}
        for sy in f:
            if sy == 1 or sy in bounds or sy in self.sym_ub or sy in self.unguarded_index:
                continue
            if sy in self.cond_defs and f[sy] > 0:
                continue
            if sy not in free or sy in self.written:
                return None            # a quantity this analysis knows nothing about: no verdict on this subscript
        out = {1: f.get(1, 0)}
        for s, k in f.items():
            if s == 1:
                continue
            if s in bounds:
                if k < 0:
                    continue            # loop variables start at >= 0: dropping a negative term only enlarges the bound
                out = L.add(out, L.scale(bounds[s], k))
            elif s in self.sym_ub:
                if k < 0:
                    continue
                out = L.add(out, L.scale(self.sym_ub[s], k))
            elif s in self.cond_defs:
                m = self.max_of(self.cond_defs[s], bounds)
                if m is None:
                    return None
                out = L.add(out, L.scale(m, k))
            elif s in self.unguarded_index:
                out = L.add(out, L.scale(self.unguarded_index[s], k))     # count, i.e. one past the end: fails the comparison
            else:
                out = L.add(out, {s: k})
        return out


def check_function(prog, F, index_helpers, report):
    """report(kind, node, table, ok, detail)"""
    T = FnTables(prog, F, index_helpers)
    n = 0
    for node in sorted(F.walk(), key=lambda x: x["id"]):
        if node["k"] == "ArraySubscriptExpr":
            b = strip(node["c"][0])
            if b["k"] != "DeclRefExpr" or b["name"] not in T.tables:
                continue
            bounds = T.loop_bounds(node)
            if bounds is None:
                report("subscript", node, b["name"], None, {"why": "a loop variable is modified inside the loop body"})
                continue
            mx = T.max_of(node["c"][1], bounds)
            if mx is None:
                report("undetermined", node, b["name"], True, {"index": expr_str(node["c"][1])})
                continue
            ok = True
            det = {"index": expr_str(node["c"][1]), "largest_index": L.show(mx) if mx is not None else None, "capacity": []}
            if ok:
                for cap, guard in T.tables[b["name"]]:
                    ub = {}
                    lb = dict(T.facts_lb)
                    if guard:
                        ub.update(upper_bounds_from(*guard))
                        for s, v in lower_bounds_from(*guard).items():
                            lb[s] = max(lb.get(s, 0), v)
                    f = L.add(L.add(cap, L.scale(mx, -1)), {1: -1})
                    mv = min_value(f, ub, lb)
                    det["capacity"].append(L.show(cap) + ((" when %s %s 0" % (L.show(guard[0]), guard[1])) if guard else ""))
                    if mv is None or mv < 0:
                        ok = False
                        det["slack"] = L.show(f)
            n += 1
            report("subscript", node, b["name"], ok, det)
        elif node["k"] == "CallExpr":
            cal = node.get("callee")
            pair = None
            if cal in prog.funcs:
                G = prog.funcs[cal]
                tp = table_params(G)
                names = [p["name"] for p in G.params]
                for pn, cn in tp.items():
                    pair = (names.index(pn) + 1, names.index(cn) + 1)
                    break
            elif cal in LIBC_TABLE_CONSUMERS:
                pair = LIBC_TABLE_CONSUMERS[cal]
            if not pair or len(node["c"]) <= max(pair):
                continue
            ta = strip(node["c"][pair[0]])
            if ta["k"] != "DeclRefExpr" or ta["name"] not in T.tables:
                continue
            cnt = L.lin(node["c"][pair[1]], T.env)
            ok = cnt is not None
            det = {"count_passed": L.show(cnt) if cnt is not None else None, "capacity": []}
            if ok:
                for cap, guard in T.tables[ta["name"]]:
                    ub = {}
                    lb = dict(T.facts_lb)
                    if guard:
                        ub.update(upper_bounds_from(*guard))
                    f = L.add(cap, L.scale(cnt, -1))
                    mv = min_value(f, ub, lb)
                    det["capacity"].append(L.show(cap) + ((" when %s %s 0" % (L.show(guard[0]), guard[1])) if guard else ""))
                    if mv is None or mv < 0:
                        ok = False
            n += 1
            report("call", node, ta["name"], ok, det)
    return n


def find_index_helpers(prog):
    """functions (table, count) -> index: the returned local is initialised to 0 and otherwise only assigned the variable of a
    loop `i < count`"""
    out = {}
    for F in prog.funcs.values():
        tp = table_params(F)
        if len(tp) != 1:
            continue
        (pn, cn), = tp.items()
        retn = [x for x in F.walk() if x["k"] == "ReturnStmt" and x.get("c")]
        if not retn or not all(strip(x["c"][0])["k"] == "DeclRefExpr" for x in retn):
            continue
        T = FnTables(prog, F, {})
        want = {cn: 1, 1: -1}
        ok = True
        for rn in retn:
            v = strip(rn["c"][0])["name"]
            b = T.loop_bounds(rn)
            if b is not None and v in b:
                ok = ok and b[v] == want          # `return i` inside `for (i = 0; i < count; i++)`
                continue
            decl = [x for x in F.walk() if x["k"] == "VarDecl" and x["name"] == v]
            if len(decl) != 1 or not decl[0].get("c") or strip(decl[0]["c"][0]).get("val") != 0:
                ok = False
                break
            for w in T.written.get(v, []):
                if not (w["k"] == "BinaryOperator" and w["op"] == "="):
                    ok = False
                    break
                rhs = strip(w["c"][1])
                b = T.loop_bounds(w)
                if rhs["k"] != "DeclRefExpr" or b is None or rhs["name"] not in b or b[rhs["name"]] != want:
                    ok = False
                    break
        if ok:
            names = [p["name"] for p in F.params]
            out[F.name] = (names.index(pn) + 1, names.index(cn) + 1)
    return out


# ------------------------------------------------------------------ shift amounts

def _type_width(ct):
    ct = (ct or "").replace("const ", "").strip()
    if ct in ("long", "unsigned long", "long long", "unsigned long long", "long int", "unsigned long int"):
        return 64
    if ct in ("int", "unsigned int", "unsigned", "_Bool", "short", "unsigned short", "char", "unsigned char", "signed char"):
        return 32          # promoted to int
    return None


def _conjuncts(c):
    c = strip(c)
    if c["k"] == "BinaryOperator" and c["op"] == "&&":
        return _conjuncts(c["c"][0]) + _conjuncts(c["c"][1])
    return [c]


def shift_amount_bound(F, node, env_consts):
    """largest value the right operand of a shift can take, or None when this analysis cannot tell"""
    r = strip(node["c"][1])
    if isinstance(r.get("val"), int):
        return r["val"]
    if r["k"] == "BinaryOperator" and r["op"] == "%":
        d = strip(r["c"][1])
        if isinstance(d.get("val"), int) and d["val"] > 0:
            return d["val"] - 1
    if r["k"] != "DeclRefExpr":
        return None
    v = r["name"]
    best = None
    child = node
    for a in F.ancestors(node):
        cond = None
        if a["k"] == "IfStmt" and child["id"] in {x["id"] for x in walk_nodes(F.nodes[a["then"]])}:
            cond = F.nodes[a["cond"]]
        elif a["k"] == "ForStmt" and a.get("cond") is not None and child["id"] in {x["id"] for x in walk_nodes(F.nodes[a["body"]])}:
            cond = F.nodes[a["cond"]]
        elif a["k"] == "ConditionalOperator" and len(a.get("c", [])) == 3 and child["id"] in {x["id"] for x in walk_nodes(a["c"][1])}:
            cond = a["c"][0]
        elif a["k"] == "BinaryOperator" and a["op"] == "&&" and child["id"] in {x["id"] for x in walk_nodes(a["c"][1])}:
            cond = a["c"][0]
        if cond is not None:
            for c in _conjuncts(cond):
                if c["k"] == "BinaryOperator" and c["op"] in ("<", "<=") and expr_str(strip(c["c"][0])) == v:
                    rhs = strip(c["c"][1])
                    if isinstance(rhs.get("val"), int):
                        b = rhs["val"] - 1 if c["op"] == "<" else rhs["val"]
                        best = b if best is None else min(best, b)
        child = a
    if best is None:
        # an unguarded loop counter that only ever grows has no bound at all
        for a in F.ancestors(node):
            if a["k"] == "ForStmt" and a.get("init") is not None:
                if any(x["k"] == "VarDecl" and x["name"] == v for x in walk_nodes(F.nodes[a["init"]])):
                    return "unbounded"
    return best


def check_shifts(prog, F, report):
    n = 0
    for node in F.walk():
        if node["k"] in ("BinaryOperator", "CompoundAssignOperator") and node.get("op") in ("<<", ">>", "<<=", ">>="):
            w = _type_width(node.get("ct") or node.get("t"))
            if w is None:
                continue
            b = shift_amount_bound(F, node, {})
            if b is None:
                report(node, None, {"why": "shift amount not bounded by this analysis"})
                continue
            n += 1
            report(node, b != "unbounded" and 0 <= b < w, {"operand_width": w, "largest_shift": b, "expression": expr_str(node)[:60]})
    return n


# ------------------------------------------------------------------ products computed in 32 bits and widened afterwards

def check_widened_products(prog, F, report):
    """`a * b` evaluated in int (32 bits) whose result is then converted to a 64-bit type: the multiplication overflows before the
    widening can help (milliseconds * 1000 -> microseconds ...).  Constant products are fine."""
    n = 0
    for node in F.walk():
        if node["k"] != "ImplicitCastExpr" or node.get("ck") != "IntegralCast":
            continue
        if _type_width(node.get("ct") or node.get("t")) != 64:
            continue
        sub = node["c"][0]
        while sub["k"] == "ParenExpr":
            sub = sub["c"][0]
        if sub["k"] != "BinaryOperator" or sub["op"] != "*" or _type_width(sub.get("ct") or sub.get("t")) != 32:
            continue
        if all(isinstance(strip(c).get("val"), int) for c in sub["c"]):
            continue
        n += 1
        report(sub, False, {"expression": expr_str(sub)[:60], "computed_in": sub.get("ct") or sub.get("t"), "widened_to": node.get("ct") or node.get("t")})
    return n
