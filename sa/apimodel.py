"""Object-invariant framework for the handle (struct reproc_t).

Inv(handle) is a disjunction of four shapes; every exported function is analysed from every shape (E-ABS) and
must (a) behave as that state dictates and (b) leave the handle in one of the shapes again.  reproc_new and a
successful reproc_start establish it (checked in C14 / C04).  This is the classic inductive object-invariant
argument: it covers every finite call sequence without enumerating sequences.

  NS      not started   status = NOT_STARTED, pid invalid, all pipe fields invalid
  RUN     running       status = IN_PROGRESS, pid = positive pid of an unreaped child, exit pipe valid,
                        stdin/stdout/stderr pipe fields each invalid or a valid open descriptor
  EXITED  reaped        status >= 0, pid reaped, exit pipe invalid, stream pipes invalid or open
  CHILD   in child      status = IN_CHILD, everything invalid
"""
import itertools
from .facts import AnalysisBroken
from .absint import State, atom_interval
from .models import fs
from .rulelib import *

OBJ_TOK = ("mem", "reproc_new", 0)
OBJ = ("heap", OBJ_TOK)
PID = ("pid", "started", 0)
STREAMS = ("in", "out", "err")


def fcell(*path):
    c = OBJ
    for p in path:
        c = ("f", c, p)
    return c


def tok(name):
    return ("fd", "handle." + name, 0, 0)


def shape_states(prog, shapes=("NS", "RUN", "EXITED", "CHILD"), combos="all"):
    """list of (label, State) covering Inv"""
    NS, IP, IC = prog.const("STATUS_NOT_STARTED"), prog.const("STATUS_IN_PROGRESS"), prog.const("STATUS_IN_CHILD")
    inv = prog.const("PIPE_INVALID")
    out = []

    def base():
        st = State()
        st.res[OBJ_TOK] = ("live",)
        for s in STREAMS + ("exit",):
            st.mem[fcell("pipe", s)] = fs(inv)
        for s in ("out", "err"):
            st.mem[fcell("child", s)] = fs(inv)
        st.mem[fcell("handle")] = fs(prog.const("PROCESS_INVALID"))
        st.mem[fcell("deadline")] = frozenset(a for a in (set(range(0, 1)) | {"POS", prog.const("REPROC_INFINITE")}))
        return st

    if "NS" in shapes:
        st = base()
        st.mem[fcell("status")] = fs(NS)
        st.mem[fcell("deadline")] = fs(prog.const("REPROC_INFINITE"))
        out.append(("NS", st))
    if "CHILD" in shapes:
        st = base()
        st.mem[fcell("status")] = fs(IC)
        out.append(("CHILD", st))
    for shape in ("RUN", "EXITED"):
        if shape not in shapes:
            continue
        for combo in itertools.product((False, True), repeat=3):
            if combos == "min" and combo not in ((False, False, False), (True, True, True)):
                continue
            st = base()
            for s, valid in zip(STREAMS, combo):
                if valid:
                    st.mem[fcell("pipe", s)] = fs(tok(s))
                    st.res[tok(s)] = ("open", True, "pipe")
            st.mem[fcell("handle")] = fs(PID)
            if shape == "RUN":
                st.mem[fcell("status")] = fs(IP)
                st.mem[fcell("pipe", "exit")] = fs(tok("exit"))
                st.res[tok("exit")] = ("open", True, "pipe")
                st.res[PID] = ("running",)
            else:
                st.mem[fcell("status")] = None   # filled by caller: nonneg
                st.res[PID] = ("reaped",)
            out.append(("%s[%s]" % (shape, "".join(s[0] if v else "-" for s, v in zip(STREAMS, combo))), st))
    return out


def entry_states(prog, I, F, shapes=("NS", "RUN", "EXITED", "CHILD"), pname="process", combos="all"):
    p = [x for x in F.params if x["name"] == pname]
    if not p:
        raise AnalysisBroken("%s has no parameter named %s" % (F.name, pname))
    pc = ("v", F.gdid(p[0]["did"]))
    res = []
    for label, st in shape_states(prog, shapes, combos):
        st = st.copy()
        st.mon["nofail"] = True
        if st.mem.get(fcell("status"), 0) is None:
            st.mem[fcell("status")] = I.nonneg()
        st.mem[pc] = fs(OBJ_TOK)
        st.mon["shape"] = label
        res.append(st)
    return res


def _is_pid(h):
    return h is not None and len(h) == 1 and isinstance(next(iter(h)), tuple) and next(iter(h))[0] == "pid"


def classify(prog, I, st, obj=None):
    """shape of the handle in state st, or (None, reason)"""
    obj = obj or OBJ
    NS, IP, IC = prog.const("STATUS_NOT_STARTED"), prog.const("STATUS_IN_PROGRESS"), prog.const("STATUS_IN_CHILD")
    inv = fs(prog.const("PIPE_INVALID"))
    def g(*p):
        c = obj
        for x in p:
            c = ("f", c, x)
        return st.mem.get(c)
    status = g("status")
    if status is None:
        return None, "status unknown"

    def pipe_ok(v):
        if v == inv:
            return True
        if v is not None and len(v) == 1:
            a = next(iter(v))
            return isinstance(a, tuple) and a[0] == "fd" and st.res.get(a, ("?",))[0] == "open"
        return False

    streams_ok = all(pipe_ok(g("pipe", s)) for s in STREAMS)
    childs_inv = g("child", "out") == inv and g("child", "err") == inv
    h = g("handle")
    if status == fs(NS):
        ok = h == fs(prog.const("PROCESS_INVALID")) and all(g("pipe", s) == inv for s in STREAMS + ("exit",)) and childs_inv
        if ok and g("deadline") != fs(prog.const("REPROC_INFINITE")):
            return None, "status NOT_STARTED but a deadline is set"
        return ("NS", None) if ok else (None, "status NOT_STARTED but pid/pipes are not all invalid")
    if status == fs(IC):
        ok = all(g("pipe", s) == inv for s in STREAMS + ("exit",)) and childs_inv
        return ("CHILD", None) if ok else (None, "status IN_CHILD but pipes are not all invalid")
    if status == fs(IP):
        # ('gone',) = waitpid reported ECHILD: somebody outside the library reaped the child; the handle stays as it was
        pid_ok = _is_pid(h) and st.res.get(next(iter(h))) in (("running",), ("gone",))
        ex = g("pipe", "exit")
        ex_ok = ex is not None and ex != inv and pipe_ok(ex)
        if pid_ok and ex_ok and streams_ok and childs_inv:
            return "RUN", None
        return None, "status IN_PROGRESS but %s" % ("pid is not the running child" if not pid_ok else
                                                   "exit pipe is not a valid open descriptor" if not ex_ok else
                                                   "a stream pipe field holds a closed (stale) or unknown descriptor")
    if all_nonneg(status):
        pid_ok = _is_pid(h) and st.res.get(next(iter(h)), ("reaped",))[0] in ("reaped",)
        if pid_ok and g("pipe", "exit") == inv and streams_ok and childs_inv:
            return "EXITED", None
        return None, "status >= 0 but %s" % ("child not reaped" if not pid_ok else "exit pipe still set" if g("pipe", "exit") != inv
                                             else "a stream pipe field holds a closed (stale) or unknown descriptor")
    return None, "status is not one of the markers or an exit status: %s" % show(status)


def fields(st, obj=None):
    out = {}
    obj = obj or OBJ

    def fcell(*path):
        c = obj
        for p in path:
            c = ("f", c, p)
        return c
    for p in (("status",), ("handle",), ("pipe", "in"), ("pipe", "out"), ("pipe", "err"), ("pipe", "exit"), ("child", "out"), ("child", "err")):
        out[".".join(p)] = show(st.mem.get(fcell(*p)))
    return out


_cache = {}


def run_api(ctx, prog, fname, shapes=("NS", "RUN", "EXITED", "CHILD"), overrides=None, extra_entry=None, tag=None,
            combos="all"):
    key = (id(prog), fname, shapes, tag, combos)
    if key in _cache:
        return _cache[key]
    F = prog.fn(fname)
    I = new_interp(prog, overrides=overrides)
    I.MAX_STATES = 40000
    entries = entry_states(prog, I, F, shapes, combos=combos)
    if extra_entry:
        entries = [s2 for s in entries for s2 in extra_entry(I, F, s)]
    res = I.run(F, entries)
    ctx.stats("E-ABS", I.stats)
    _cache[key] = (res, F, I)
    return _cache[key]
