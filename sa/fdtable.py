"""Descriptor-table analysis of the child side of process_start (shared by C10 and C11).

The three stream handles given to process_start are enumerated over the abstract layouts that matter for
installing them on 0/1/2: each is descriptor 0, 1, 2 or some descriptor >= 3 (and stderr may be the very same
descriptor as stdout, as with REPROC_REDIRECT_STDOUT) - 68 layouts, times exec / fork mode.  The child code is then
abstractly interpreted with a model of the per-process descriptor table (which open object each descriptor number
refers to, and its close-on-exec flag) updated by dup2 / fcntl(F_DUPFD_CLOEXEC) / close / handle_cloexec.  At exec
(and at the child's return in fork mode) the table is compared with what the property demands."""
import itertools
from .facts import AnalysisBroken, expr_str
from .absint import State, is_int
from .models import fs, ev, failed, m_close
from .rulelib import *
from . import summaries as S

LOW = (0, 1, 2)


def H(name):
    return ("h", name)


def tab_get(st, key):
    return st.res.get(("tab", key))


def tab_set(s, key, val):
    if val is None:
        s.res.pop(("tab", key), None)
    else:
        s.res[("tab", key)] = val


def one(v):
    return next(iter(v)) if len(v) == 1 else None


def m_dup2(I, fn, n, args, st):
    ev(I, "dup2", fn, n, (args[0], args[1]), st)
    s = st.copy()
    src, dst = one(args[0]), one(args[1])
    if src is None or dst is None:
        s.mon["imprecise"] = "dup2(%s, %s)" % (show(args[0]), show(args[1]))
    elif src != dst:
        cur = tab_get(s, src)
        if cur is None:
            s.mon["bad_dup2"] = "dup2 from descriptor %s which is not open at this point (it was overwritten or closed)" % (src,)
            return [(failed(st, fn, n), fs(-1))]
        tab_set(s, dst, (cur[0], False))
    return [(failed(st, fn, n), fs(-1)), (s, args[1])]


def m_fcntl(I, fn, n, args, st):
    cmd = one(args[1])
    if cmd == 1030 or cmd == 0:      # F_DUPFD_CLOEXEC / F_DUPFD
        s = st.copy()
        src = one(args[0])
        k = 0
        while tab_get(s, H("dup%d" % k)) is not None:
            k += 1
        new = H("dup%d" % k)
        cur = tab_get(s, src) if src is not None else None
        if cur is None:
            s.mon["imprecise"] = "fcntl(F_DUPFD) of %s" % show(args[0])
        else:
            tab_set(s, new, (cur[0], cmd == 1030))
        s.mon["dupmin"] = args[2] if len(args) > 2 else None
        ev(I, "fd-create", fn, n, ("dupfd", new, args[0], cmd), s)
        return [(failed(st, fn, n), fs(-1)), (s, fs(new))]
    if cmd == 1:
        return [(st, fs(-1)), (st, I.nonneg())]
    return [(failed(st, fn, n), fs(-1)), (st, I.nonneg())]


def m_dup(I, fn, n, args, st):
    """dup(): the copy gets the LOWEST free descriptor number.  In the forked child every descriptor outside the keep list has
    been closed (C11), so a number in 0..2 that holds none of the handles is free and is what dup() returns; otherwise the
    copy lands on some number >= 3.  The copy never has close-on-exec."""
    s = st.copy()
    src = one(args[0])
    cur = tab_get(s, src) if src is not None else None
    if cur is None:
        s.mon["imprecise"] = "dup(%s)" % show(args[0])
        return [(failed(st, fn, n), fs(-1)), (s, I.nonneg())]
    free = [k for k in LOW if tab_get(s, k) is None or str(tab_get(s, k)[0]).startswith("parent's fd")]
    if free:
        new = free[0]
    else:
        k = 0
        while tab_get(s, H("dup%d" % k)) is not None:
            k += 1
        new = H("dup%d" % k)
    tab_set(s, new, (cur[0], False))
    ev(I, "fd-create", fn, n, ("dup", new, args[0]), s)
    return [(failed(st, fn, n), fs(-1)), (s, fs(new))]


def o_cloexec(I, fn, n, args, st):
    ev(I, "cloexec", fn, n, (args[0], args[1]), st)
    s = st.copy()
    fd = one(args[0])
    flag = True if args[1] == fs(1) else False if args[1] == fs(0) else None
    if fd is None or flag is None:
        s.mon["imprecise"] = "handle_cloexec(%s, %s)" % (show(args[0]), show(args[1]))
    else:
        cur = tab_get(s, fd)
        if cur is not None:
            tab_set(s, fd, (cur[0], flag))
        elif isinstance(fd, tuple) and fd[0] == "fd":
            tab_set(s, fd, ("library pipe", flag))
    return [(failed(st, fn, n), I.neg()), (s, fs(0))]


def m_close_tab(I, fn, n, args, st):
    outs = m_close(I, fn, n, args, st)
    fd = one(args[0])
    res = []
    for s, v in outs:
        if fd is not None and tab_get(s, fd) is not None:
            s = s.copy()
            tab_set(s, fd, None)
        res.append((s, v))
    return res


def o_fork_child_only(I, fn, n, args, st):
    """only the child outcome of process_fork matters here; the keep list is what the close-all loop spares"""
    ev(I, "process_fork", fn, n, args, st)
    child = st.copy()
    child.mon["proc"] = "child"
    child.mon["sigmask"] = fs(("sym", "EMPTY"))
    child.mon["except"] = args[0]
    return [(child, fs(0))]


def layouts():
    out = []
    for i, o in itertools.product((0, 1, 2, "B"), repeat=2):
        errs = [0, 1, 2, "B"] + (["O"] if o == "B" else [])
        for e in errs:
            out.append((i, o, e))
    return out


def entry_state(prog, F, layout, mode):
    sts = S.process_start_entry(prog, F)
    st = sts[0] if mode == "fork" else sts[1]
    st = st.copy()
    opt = [("v", F.gdid(p["did"])) for p in F.params if p["name"] == "options"][0]
    # the parent's own standard streams occupy 0..2 unless a handle sits there
    for k in LOW:
        tab_set(st, k, ("parent's fd %d" % k, None))
    expected = {}
    vals = {}
    for name, l in zip(("in", "out", "err"), layout):
        if l == "O":
            vals[name] = vals["out"]
        elif l == "B":
            vals[name] = H(name)
        else:
            vals[name] = l
    for name in ("in", "out", "err"):
        v = vals[name]
        cur = tab_get(st, v)
        if cur is None or str(cur[0]).startswith("parent's fd"):
            # the close-on-exec flag of a handle on entry is unknown (None): library handles have it, user handles may not
            tab_set(st, v, ("object given for %s" % ("out/err" if (name == "err" and vals["err"] == vals["out"]) or
                                                    (name == "out" and vals["err"] == vals["out"]) else name), None))
        expected[name] = tab_get(st, v)[0]
    for name in ("in", "out", "err"):
        expected[name] = tab_get(st, vals[name])[0]
        st.mem[("f", ("f", opt, "handle"), name)] = fs(vals[name])
    ex = H("exit")
    st.mem[("f", ("f", opt, "handle"), "exit")] = fs(ex)
    st.res.pop(("fd", "exit-pipe", 0, 0), None)
    tab_set(st, ex, ("exit pipe", True))
    st.mon["layout"] = layout
    st.mon["mode"] = mode
    st.mon["expected"] = tuple(sorted(expected.items()))
    st.mon["nofail"] = True
    return st


_cache = {}


def analyse(ctx, prog):
    key = id(prog)
    if key in _cache:
        return _cache[key]
    F = prog.fn("process_start")
    ov = dict(S.HEAP_HELPERS)
    ov["process_fork"] = o_fork_child_only
    ov["handle_cloexec"] = o_cloexec
    I = new_interp(prog, overrides=ov, extra_models={"dup2": m_dup2, "dup": m_dup, "fcntl": m_fcntl, "close": m_close_tab})
    I.K = sorted(set(I.K) | {1030, 0, 1, 2, 3})
    I.Kset = set(I.K)
    I.TOP_INT = frozenset(I.K) | {"NEG", "POS"}
    I.widen = False
    entries = [entry_state(prog, F, l, m) for l in layouts() for m in ("exec", "fork")]
    res = I.run(F, entries)
    ctx.stats("E-ABS", I.stats)
    finals = []      # (layout, mode, state, how)
    for e in res.events:
        if e[0] == "exec":
            finals.append((e[4].mon["layout"], "exec", e[4], e))
    for st, rv in res.exits:
        if st.mon.get("proc") == "child" and rv == fs(0):
            finals.append((st.mon["layout"], st.mon["mode"], st, None))
    _cache[key] = (res, F, I, finals, len(entries))
    return _cache[key]


def table_of(st):
    return {k[1]: v for k, v in st.res.items() if k[0] == "tab"}
