"""Summaries (overrides) for internal functions that are analysed on their own
and then replaced by their verified outcome classes when a caller is analysed,
plus the canned entry states for the functions of the start path."""
from .facts import AnalysisBroken
from .absint import State, atom_interval
from .models import ev, fs, new_mem, targets, failed
from .rulelib import new_interp, all_neg, show, ret_site


# ------------------------------------------------------------------ process_fork

def o_process_fork(I, fn, n, args, st):
    ev(I, "process_fork", fn, n, args, st)
    fail = (failed(st, fn, n), I.neg())
    child = st.copy()
    child.mon["proc"] = "child"
    child.mon["sigmask"] = fs(("sym", "EMPTY"))
    pid = ("pid", "process_fork", 0)
    ok = st.copy()
    ok.mon["proc"] = "parent"
    ok.res[pid] = ("running",)
    bad = failed(st, fn, n).copy()
    bad.mon["proc"] = "parent"
    bad.res[pid] = ("reaped",)
    return [fail, (child, fs(0)), (ok, fs(pid)), (bad, I.neg())]


def classify_fork_exit(st, rv):
    proc = st.mon.get("proc")
    pids = [k for k in st.res if k[0] == "pid"]
    if proc is None and all_neg(rv) and not pids:
        return "fail-before-fork"
    if proc == "child" and rv == fs(0):
        return "child"
    if proc == "parent" and len(rv) == 1 and next(iter(rv))[0:1] == ("pid",) and st.res.get(next(iter(rv))) == ("running",):
        return "parent-ok"
    if proc == "parent" and all_neg(rv) and pids and all(st.res[p] in (("reaped",), ("gone",)) for p in pids):
        return "parent-child-failed-and-reaped"
    return None


_fork_cache = {}


def verify_fork_summary(ctx, prog, rule):
    """obligation: every exit of the stand-alone analysis of process_fork falls into one of the
    outcome classes that o_process_fork hands to callers"""
    key = id(prog)
    if key not in _fork_cache:
        F = prog.fn("process_fork")
        I = new_interp(prog)
        res = I.run(F)
        ctx.stats("E-ABS", I.stats)
        _fork_cache[key] = (F, res)
    F, res = _fork_cache[key]
    classes = set()
    for st, rv in res.exits:
        c = classify_fork_exit(st, rv)
        site, node = ret_site(F, st)
        ctx.ob(rule, site + " [%s]" % (c or "unclassified"), "this exit of process_fork is one of the summarised outcomes "
               "(fail before fork / child returns 0 / parent returns the pid / parent returns <0 with the child reaped)",
               c is not None, {"returns": show(rv), "side": st.mon.get("proc"),
                               "children": {str(k): v for k, v in st.res.items() if k[0] == "pid"}}, nontrivial=True)
        classes.add(c)
    need = {"fail-before-fork", "child", "parent-ok", "parent-child-failed-and-reaped"}
    if not need <= classes and None not in classes:
        raise AnalysisBroken("process_fork summary: outcome classes %s never produced" % sorted(need - classes))
    return res


# ------------------------------------------------------------------ small helpers with heap effects

def o_strv_concat(I, fn, n, args, st):
    s, t = new_mem(I, fn, n, st)
    ev(I, "alloc", fn, n, t, s)
    return [(failed(st, fn, n), fs("NULL")), (s, fs(t))]


def o_strv_free(I, fn, n, args, st):
    from .models import m_free
    out = m_free(I, fn, n, args, st)
    return [(s, fs("NULL")) for s, _ in out]


def o_path_prepend_cwd(I, fn, n, args, st):
    ev(I, "getcwd", fn, n, args, st)
    s, t = new_mem(I, fn, n, st)
    ev(I, "alloc", fn, n, t, s)
    return [(failed(st, fn, n), fs("NULL")), (s, fs(t))]


def o_bool(I, fn, n, args, st):
    return [(st, fs(0)), (st, fs(1))]


HEAP_HELPERS = {"strv_concat": o_strv_concat, "strv_free": o_strv_free, "path_prepend_cwd": o_path_prepend_cwd,
                "path_is_relative": o_bool}


# ------------------------------------------------------------------ process_start

_ps_cache = {}


def process_start_entry(prog, F, argv_null=None):
    """canned entry state: distinct foreign handles for the three streams, a library pipe end as exit handle"""
    st = State()
    opt = None
    for p in F.params:
        if p["name"] == "options":
            opt = ("v", F.gdid(p["did"]))
        if p["name"] == "process":
            c = ("v", F.gdid(p["did"]))
            st.mem[c] = fs(("addr", ("d", c)))
    if opt is None:
        raise AnalysisBroken("process_start has no `options` parameter")
    for s in ("in", "out", "err"):
        st.mem[("f", ("f", opt, "handle"), s)] = fs(("ext", "handle." + s))
    ex = ("fd", "exit-pipe", 0, 0)
    st.mem[("f", ("f", opt, "handle"), "exit")] = fs(ex)
    st.res[ex] = ("open", True, "pipe-write")
    # argv as established by parse_options (C13.A2): NULL in fork mode, otherwise argv[0] != NULL
    av = [("v", F.gdid(p["did"])) for p in F.params if p["name"] == "argv"][0]
    s1 = st.copy()
    s1.mem[av] = fs("NULL")
    s2 = st.copy()
    s2.mem[av] = fs(("addr", ("d", av)))
    s2.mem[("i", ("d", av), 0)] = fs("PTR")
    return [s1, s2]


def analyse_process_start(ctx, prog):
    key = id(prog)
    if key in _ps_cache:
        return _ps_cache[key]
    F = prog.fn("process_start")
    ov = dict(HEAP_HELPERS)
    ov["process_fork"] = o_process_fork
    I = new_interp(prog, overrides=ov)
    res = I.run(F, process_start_entry(prog, F))
    ctx.stats("E-ABS", I.stats)
    _ps_cache[key] = (res, F, I)
    return _ps_cache[key]


# ------------------------------------------------------------------ process_start summary

def o_process_start(I, fn, n, args, st):
    """outcome classes of process_start (verified by verify_start_summary):
    <0 with *process untouched and no child left; 0 in the forked child; 1 with *process = pid of a running child"""
    ev(I, "process_start", fn, n, args, st)
    if "validated" in st.mon:
        st = st.copy()
        del st.mon["validated"]        # only of interest up to this call (C10.W4t); dropping it lets equal futures merge again
    fail = (failed(st, fn, n), I.neg())
    child = st.copy()
    ends = set()
    if isinstance(args[2], tuple) and args[2][0] == "agg":
        for cell in args[2][1]:
            for x in ("in", "out", "err"):
                ends |= {a for a in (st.mem.get(("f", ("f", cell, "handle"), x)) or ()) if isinstance(a, tuple) and a[0] == "fd"}
    child.mon["child_ends"] = frozenset(ends)
    # the forked child has closed every descriptor outside its keep list (the three handles and the exit handle): C11.X2.
    # A number the parent still remembers in a pipe field therefore refers to nothing in the child - or, later, to a
    # standard stream that was installed on it.
    keep = set(ends)
    if isinstance(args[2], tuple) and args[2][0] == "agg":
        for cell in args[2][1]:
            keep |= {a for a in (st.mem.get(("f", ("f", cell, "handle"), "exit")) or ()) if isinstance(a, tuple) and a[0] == "fd"}
    for k, v in list(child.res.items()):
        if k[0] == "fd" and v and v[0] == "open" and k not in keep:
            child.res[k] = ("closed",) + tuple(v[1:])
    child.mon["proc"] = "child"
    child.mon["sigmask"] = fs(("sym", "EMPTY"))
    pid = ("pid", "process_start", 0)
    ok = st.copy()
    ok.mon["proc"] = "parent"
    ok.res[pid] = ("running",)
    for t in targets(I, args[0]):
        ok.mem[t] = fs(pid)
    return [fail, (child, fs(0)), (ok, fs(1))]


def classify_start_exit(st, rv, pcell):
    proc = st.mon.get("proc")
    pids = [k for k in st.res if k[0] == "pid"]
    pv = st.mem.get(pcell)
    if proc == "child":
        return "child" if rv == fs(0) else None
    if all_neg(rv):
        if pv is None and all(st.res[p] in (("reaped",), ("gone",)) for p in pids):
            return "fail"
        return None
    if rv == fs(1) and pv is not None and len(pv) == 1 and next(iter(pv))[0:1] == ("pid",) \
            and st.res.get(next(iter(pv))) == ("running",):
        return "ok"
    return None


# ------------------------------------------------------------------ parse_options summary

def o_parse_options(I, fn, n, args, st):
    """success: every stream has one of the constructible redirect types (STDOUT only for stderr) and a type that
    needs a payload has it; start-up input data implies a piped stdin, a size implies data.  failure: negative,
    nothing else changed (the options object is reproc_start's private copy).  Verified against the code by C13
    (rule C13.S, verify_parse_summary)."""
    import itertools
    ev(I, "parse_options", fn, n, args, st)
    P = I.prog
    T = lambda name: I.abs_int(P.const(name))
    plain = [T("REPROC_REDIRECT_PIPE"), T("REPROC_REDIRECT_PARENT"), T("REPROC_REDIRECT_DISCARD")]
    nonzero = frozenset(a for a in I.TOP_INT if a != 0)
    outs = [(failed(st, fn, n), I.neg())]
    st = st.copy()
    st.mon["parsed"] = True
    for t in targets(I, args[0]):
        red = ("f", t, "redirect")

        def alts(stream, data):
            if stream == "in" and data == "set":
                return [(frozenset({T("REPROC_REDIRECT_PIPE")}), None, None)]
            base = list(plain) + ([T("REPROC_REDIRECT_STDOUT")] if stream == "err" else [])
            return [(fs(b), None, None) for b in base] + [
                    (fs(T("REPROC_REDIRECT_HANDLE")), "handle", fs(("uh", stream))),
                    (fs(T("REPROC_REDIRECT_FILE")), "file", fs("PTR")),
                    (fs(T("REPROC_REDIRECT_PATH")), "path", fs("PTR"))]
        for data in ("null", "set"):
            for combo in itertools.product(alts("in", data), alts("out", data), alts("err", data)):
                s = st.copy()
                s.mon["validated"] = tuple(next(iter(types)) for types, fld, val in combo)
                for stream, (types, fld, val) in zip(("in", "out", "err"), combo):
                    s.mem[("f", ("f", red, stream), "type")] = types
                    if fld:
                        s.mem[("f", ("f", red, stream), fld)] = val
                inp = ("f", t, "input")
                if data == "null":
                    s.mem[("f", inp, "data")] = fs("NULL")
                    s.mem[("f", inp, "size")] = fs(0)
                else:
                    s.mem[("f", inp, "data")] = fs("PTR")
                    s.mem[("f", inp, "size")] = I.nonneg()
                    s.mon["input"] = "set"
                s.mem[("f", t, "deadline")] = frozenset(a for a in I.TOP_INT if a != 0)
                for fld in ("first", "second", "third"):
                    s.mem[("f", ("f", ("f", t, "stop"), fld), "action")] = fs(("sym", "parsed.stop.%s.action" % fld))
                    s.mem[("f", ("f", ("f", t, "stop"), fld), "timeout")] = fs(("sym", "parsed.stop.%s.timeout" % fld))
                outs.append((s, fs(0)))
    return outs


def not_started_object(prog, F, st, pname="process"):
    p = [x for x in F.params if x["name"] == pname][0]
    c = ("v", F.gdid(p["did"]))
    obj = ("d", c)
    st.mem[c] = fs(("addr", obj))
    st.mem[("f", obj, "status")] = fs(prog.const("STATUS_NOT_STARTED"))
    st.mem[("f", obj, "handle")] = fs(prog.const("PROCESS_INVALID"))
    for f in ("in", "out", "err", "exit"):
        st.mem[("f", ("f", obj, "pipe"), f)] = fs(prog.const("PIPE_INVALID"))
    for f in ("out", "err"):
        st.mem[("f", ("f", obj, "child"), f)] = fs(prog.const("PIPE_INVALID"))
    st.mem[("f", obj, "deadline")] = fs(prog.const("REPROC_INFINITE"))
    return obj


_rs_cache = {}


def analyse_reproc_start(ctx, prog):
    key = id(prog)
    if key in _rs_cache:
        return _rs_cache[key]
    F = prog.fn("reproc_start")
    ov = dict(HEAP_HELPERS)
    ov["process_start"] = o_process_start
    ov["parse_options"] = o_parse_options
    I = new_interp(prog, overrides=ov)
    I.MAX_STATES = 60000
    st = State()
    obj = not_started_object(prog, F, st)
    res = I.run(F, [st])
    ctx.stats("E-ABS", I.stats)
    _rs_cache[key] = (res, F, I, obj)
    return _rs_cache[key]


# ------------------------------------------------------------------ reproc_poll helpers (pure)

def o_top_int(I, fn, n, args, st):
    return [(st, I.TOP_INT)]


def o_nonneg(I, fn, n, args, st):
    return [(st, I.nonneg())]


POLL_HELPERS = {"expiry": o_top_int, "find_earliest_deadline": o_nonneg, "contains_valid_pipe": o_bool,
                "pipe_poll": o_top_int, "pipe_shutdown": o_top_int, "now": o_top_int}
