"""Summaries (overrides) for internal functions that are analysed on their own
and then replaced by their verified outcome classes when a caller is analysed,
plus the canned entry states for the functions of the start path."""
from .facts import AnalysisBroken
from .absint import State, atom_interval
from .models import ev, fs, new_mem, targets
from .rulelib import new_interp, all_neg, show, ret_site


# ------------------------------------------------------------------ process_fork

def o_process_fork(I, fn, n, args, st):
    ev(I, "process_fork", fn, n, args, st)
    fail = (st, I.neg())
    child = st.copy()
    child.mon["proc"] = "child"
    child.mon["sigmask"] = fs(("sym", "EMPTY"))
    pid = ("pid", "process_fork", n["id"])
    ok = st.copy()
    ok.mon["proc"] = "parent"
    ok.res[pid] = ("running",)
    bad = st.copy()
    bad.mon["proc"] = "parent"
    bad.res[pid] = ("reaped",)
    return [fail, (child, fs(0)), (ok, fs(pid)), (bad, I.neg())]


def classify_fork_exit(st, rv):
    proc = st.mon.get("proc")
    pids = [k for k in st.res if k[0] == "pid"]
    if proc is None and all_neg(rv) and not pids:
        return "fail-before-fork"
    if proc == "child" and rv == fs(0):
        return "child"
    if proc == "parent" and len(rv) == 1 and next(iter(rv))[0:1] == ("pid",) and st.res.get(next(iter(rv))) == ("running",):
        return "parent-ok"
    if proc == "parent" and all_neg(rv) and pids and all(st.res[p] in (("reaped",), ("gone",)) for p in pids):
        return "parent-child-failed-and-reaped"
    return None


_fork_cache = {}


def verify_fork_summary(ctx, prog, rule):
    """obligation: every exit of the stand-alone analysis of process_fork falls into one of the
    outcome classes that o_process_fork hands to callers"""
    key = id(prog)
    if key not in _fork_cache:
        F = prog.fn("process_fork")
        I = new_interp(prog)
        res = I.run(F)
        ctx.stats("E-ABS", I.stats)
        _fork_cache[key] = (F, res)
    F, res = _fork_cache[key]
    classes = set()
    for st, rv in res.exits:
        c = classify_fork_exit(st, rv)
        site, node = ret_site(F, st)
        ctx.ob(rule, site + " [%s]" % (c or "unclassified"), "this exit of process_fork is one of the summarised outcomes "
               "(fail before fork / child returns 0 / parent returns the pid / parent returns <0 with the child reaped)",
               c is not None, {"returns": show(rv), "side": st.mon.get("proc"),
                               "children": {str(k): v for k, v in st.res.items() if k[0] == "pid"}}, nontrivial=True)
        classes.add(c)
    need = {"fail-before-fork", "child", "parent-ok", "parent-child-failed-and-reaped"}
    if not need <= classes:
        raise AnalysisBroken("process_fork summary: outcome classes %s never produced" % sorted(need - classes))
    return res


# ------------------------------------------------------------------ small helpers with heap effects

def o_strv_concat(I, fn, n, args, st):
    s, t = new_mem(I, fn, n, st)
    ev(I, "alloc", fn, n, t, s)
    return [(st, fs("NULL")), (s, fs(t))]


def o_strv_free(I, fn, n, args, st):
    from .models import m_free
    out = m_free(I, fn, n, args, st)
    return [(s, fs("NULL")) for s, _ in out]


def o_path_prepend_cwd(I, fn, n, args, st):
    ev(I, "getcwd", fn, n, args, st)
    s, t = new_mem(I, fn, n, st)
    ev(I, "alloc", fn, n, t, s)
    return [(st, fs("NULL")), (s, fs(t))]


def o_bool(I, fn, n, args, st):
    return [(st, fs(0)), (st, fs(1))]


HEAP_HELPERS = {"strv_concat": o_strv_concat, "strv_free": o_strv_free, "path_prepend_cwd": o_path_prepend_cwd,
                "path_is_relative": o_bool}


# ------------------------------------------------------------------ process_start

_ps_cache = {}


def process_start_entry(prog, F, argv_null=None):
    """canned entry state: distinct foreign handles for the three streams, a library pipe end as exit handle"""
    st = State()
    opt = None
    for p in F.params:
        if p["name"] == "options":
            opt = ("v", F.gdid(p["did"]))
        if p["name"] == "process":
            c = ("v", F.gdid(p["did"]))
            st.mem[c] = fs(("addr", ("d", c)))
    if opt is None:
        raise AnalysisBroken("process_start has no `options` parameter")
    for s in ("in", "out", "err"):
        st.mem[("f", ("f", opt, "handle"), s)] = fs(("ext", "handle." + s))
    ex = ("fd", "exit-pipe", 0)
    st.mem[("f", ("f", opt, "handle"), "exit")] = fs(ex)
    st.res[ex] = ("open", True, "pipe-write")
    return st


def analyse_process_start(ctx, prog):
    key = id(prog)
    if key in _ps_cache:
        return _ps_cache[key]
    F = prog.fn("process_start")
    ov = dict(HEAP_HELPERS)
    ov["process_fork"] = o_process_fork
    I = new_interp(prog, overrides=ov)
    res = I.run(F, [process_start_entry(prog, F)])
    ctx.stats("E-ABS", I.stats)
    _ps_cache[key] = (res, F, I)
    return _ps_cache[key]
