"""Helpers shared by the rule modules."""
from .facts import expr_str, strip, CALL_KINDS, AnalysisBroken
from .absint import Interp, State, atom_interval, INF, is_int, cell_base, walk_nodes
from .models import LIBC, OVERRIDES


def callsites(prog, name):
    out = []
    for F in prog.funcs_all:
        for n in F.nodes.values():
            if n["k"] in CALL_KINDS and n.get("callee") == name:
                out.append((F, n))
    return out


def loc(F, n):
    return "%s:%d" % (F.prog.rel(F.file), n["l"][0])


def site_of(F, n):
    """line-independent identity of a construct: function + printed expression"""
    return "%s: %s" % (F.name, expr_str(n)[:120])


def ret_site(F, st):
    nid = st.tmp.get((F.name, "retnode"))
    if nid is None:
        return "%s: <end of function>" % F.name, None
    n = F.nodes[nid]
    return "%s: %s" % (F.name, expr_str(n)[:100]), n


def show(v):
    if isinstance(v, frozenset):
        return "{" + ", ".join(sorted(str(a) for a in v)) + "}"
    return str(v)


def all_neg(v):
    return bool(v) and all(atom_interval(a)[1] < 0 for a in v)


def all_nonneg(v):
    return bool(v) and all(atom_interval(a)[0] >= 0 for a in v)


def all_pos(v):
    return bool(v) and all(atom_interval(a)[0] >= 1 for a in v)


def may_neg(v):
    return any(atom_interval(a)[0] < 0 for a in v)


def may_nonneg(v):
    return any(atom_interval(a)[1] >= 0 for a in v)


ENV_FAULTS = False      # set by a check that wants read() on a valid blocking descriptor to fail with other errors than EINTR too


def new_interp(prog, overrides=None, no_inline=(), K=None, extra_models=None, keep_live=()):
    ov = dict(OVERRIDES)
    if overrides:
        ov.update(overrides)
    models = dict(LIBC)
    if extra_models:
        models.update(extra_models)
    I = Interp(prog, models=models, overrides=ov, no_inline=no_inline, K=K)
    I.env_faults = ENV_FAULTS
    I.keep_live = set(keep_live)
    return I


def trace_lines(F, st):
    return []


def enclosing_loops(F, n):
    return [a for a in F.ancestors(n) if a["k"] in ("ForStmt", "WhileStmt", "DoStmt")]


def const_of(prog, n):
    """integer value of an expression if the extractor or the constant table knows it"""
    n = strip(n)
    if "val" in n and is_int(n["val"]):
        return n["val"]
    if n["k"] == "DeclRefExpr" and n.get("name") in prog.consts:
        return prog.consts[n["name"]]
    if n["k"] == "UnaryOperator" and n["op"] == "-":
        v = const_of(prog, n["c"][0])
        return -v if v is not None else None
    return None


def refs_var(n, name):
    return any(x["k"] == "DeclRefExpr" and x.get("name") == name for x in walk_nodes(n))


def declrefs(n):
    return [x for x in walk_nodes(n) if x["k"] == "DeclRefExpr"]


def field_path(n):
    """('process', ['pipe','in']) for process->pipe.in; None if not a pure member chain on a variable"""
    n = strip(n)
    path = []
    while True:
        k = n["k"]
        if k == "MemberExpr":
            path.append(n["member"])
            n = strip(n["c"][0])
        elif k == "ArraySubscriptExpr":
            idx = strip(n["c"][1])
            path.append("[%s]" % (idx["val"] if "val" in idx else expr_str(idx)))
            n = strip(n["c"][0])
        elif k == "UnaryOperator" and n["op"] in ("*", "&"):
            n = strip(n["c"][0])
        elif k == "DeclRefExpr":
            path.reverse()
            return n["name"], path
        else:
            return None


def mark_failures(I):
    """wrap every library model of interpreter I: the first outcome on a path that reports failure (a negative value or NULL) is
    recorded in the monitor as mon["libfail"] = "<function>@<caller>:<line>" - whichever way the model describes errno"""
    for table, name, m in [(I.models, k, v) for k, v in I.models.items()] + [(I.overrides, k, v) for k, v in I.overrides.items() if k in OVERRIDES]:
        def w(I_, fn, n, args, st, m=m, name=name):
            res = []
            for s, v in m(I_, fn, n, args, st):
                if v != "NORETURN" and isinstance(v, frozenset) and v and (all_neg(v) or v == frozenset({"NULL"})) and "libfail" not in s.mon:
                    s = s.copy()
                    s.mon["libfail"] = "%s@%s:%d" % (name, fn.name, n["l"][0])
                res.append((s, v))
            return res
        table[name] = w


def lib_functions(prog):
    return [F for F in prog.funcs_all if F.file.startswith(prog.root) and "/test/" not in F.file and "/examples/" not in F.file]


def child_exit_rule(ctx, prog, rule):
    """the forked child leaves through _exit only.  exit() / quick_exit() in the child would run the handlers the application registered
    with atexit (which may stop other handles: signals and reaps from a process that started nothing, or wait on a lock another
    thread held at fork time: the parent then never gets its answer) and flush the parent's stdio buffers a second time."""
    hits = []
    funcs = lib_functions(prog)
    for name in ("exit", "quick_exit"):
        for F, n in callsites(prog, name):
            if F in funcs:
                hits.append(site_of(F, n))
    n_exit = sum(1 for F, n in callsites(prog, "_exit") if F in funcs) + sum(1 for F, n in callsites(prog, "_Exit") if F in funcs)
    ctx.ob(rule, "library: leaving the forked child", "the library never calls exit() or quick_exit(): the child side of a failed start ends "
           "with _exit, which runs no handler of the application and touches none of its buffers", not hits and n_exit >= 1,
           {"functions_scanned": len(funcs), "_exit_sites": n_exit, "exit_sites": hits[:4]})


def clock_rule(ctx, prog, rule):
    """deadlines and until-deadline waits are measured on a clock that advances with real time at (at least) millisecond resolution:
    CLOCK_REALTIME, CLOCK_MONOTONIC, CLOCK_MONOTONIC_RAW, CLOCK_BOOTTIME or CLOCK_TAI - not a CPU-time clock (stands still while
    the parent sleeps, runs N times too fast with N busy threads) and not a *_COARSE clock (advances once per scheduler tick)."""
    OK = {0: "CLOCK_REALTIME", 1: "CLOCK_MONOTONIC", 4: "CLOCK_MONOTONIC_RAW", 7: "CLOCK_BOOTTIME", 11: "CLOCK_TAI"}
    F = prog.fn("now")
    calls = [c for c in F.calls("clock_gettime")]
    if not calls:
        ctx.floor_failures.append("%s: now() does not call clock_gettime (another time source?), no verdict" % rule)
        return
    for c in calls:
        k = const_of(prog, c["c"][1])
        if k is None:
            ctx.floor_failures.append("%s: the clock id %s is not a constant this check can evaluate, no verdict" % (rule, expr_str(c["c"][1])[:40]))
            continue
        ctx.ob(rule, site_of(F, c), "the library's time source is a clock that follows real time with millisecond resolution", k in OK,
               {"clock_id": k, "name": OK.get(k, "a CPU-time, coarse or other clock")})
