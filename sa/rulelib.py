"""Helpers shared by the rule modules."""
from .facts import expr_str, strip, CALL_KINDS, AnalysisBroken
from .absint import Interp, State, atom_interval, INF, is_int, cell_base, walk_nodes
from .models import LIBC, OVERRIDES


def callsites(prog, name):
    out = []
    for F in prog.funcs_all:
        for n in F.nodes.values():
            if n["k"] in CALL_KINDS and n.get("callee") == name:
                out.append((F, n))
    return out


def loc(F, n):
    return "%s:%d" % (F.prog.rel(F.file), n["l"][0])


def site_of(F, n):
    """line-independent identity of a construct: function + printed expression"""
    return "%s: %s" % (F.name, expr_str(n)[:120])


def ret_site(F, st):
    nid = st.tmp.get((F.name, "retnode"))
    if nid is None:
        return "%s: <end of function>" % F.name, None
    n = F.nodes[nid]
    return "%s: %s" % (F.name, expr_str(n)[:100]), n


def show(v):
    if isinstance(v, frozenset):
        return "{" + ", ".join(sorted(str(a) for a in v)) + "}"
    return str(v)


def all_neg(v):
    return bool(v) and all(atom_interval(a)[1] < 0 for a in v)


def all_nonneg(v):
    return bool(v) and all(atom_interval(a)[0] >= 0 for a in v)


def all_pos(v):
    return bool(v) and all(atom_interval(a)[0] >= 1 for a in v)


def may_neg(v):
    return any(atom_interval(a)[0] < 0 for a in v)


def may_nonneg(v):
    return any(atom_interval(a)[1] >= 0 for a in v)


ENV_FAULTS = False      # set by a check that wants read() on a valid blocking descriptor to fail with other errors than EINTR too


def new_interp(prog, overrides=None, no_inline=(), K=None, extra_models=None, keep_live=()):
    ov = dict(OVERRIDES)
    if overrides:
        ov.update(overrides)
    models = dict(LIBC)
    if extra_models:
        models.update(extra_models)
    I = Interp(prog, models=models, overrides=ov, no_inline=no_inline, K=K)
    I.env_faults = ENV_FAULTS
    I.keep_live = set(keep_live)
    return I


def trace_lines(F, st):
    return []


def enclosing_loops(F, n):
    return [a for a in F.ancestors(n) if a["k"] in ("ForStmt", "WhileStmt", "DoStmt")]


def const_of(prog, n):
    """integer value of an expression if the extractor or the constant table knows it"""
    n = strip(n)
    if "val" in n and is_int(n["val"]):
        return n["val"]
    if n["k"] == "DeclRefExpr" and n.get("name") in prog.consts:
        return prog.consts[n["name"]]
    if n["k"] == "UnaryOperator" and n["op"] == "-":
        v = const_of(prog, n["c"][0])
        return -v if v is not None else None
    return None


def refs_var(n, name):
    return any(x["k"] == "DeclRefExpr" and x.get("name") == name for x in walk_nodes(n))


def declrefs(n):
    return [x for x in walk_nodes(n) if x["k"] == "DeclRefExpr"]


def field_path(n):
    """('process', ['pipe','in']) for process->pipe.in; None if not a pure member chain on a variable"""
    n = strip(n)
    path = []
    while True:
        k = n["k"]
        if k == "MemberExpr":
            path.append(n["member"])
            n = strip(n["c"][0])
        elif k == "ArraySubscriptExpr":
            idx = strip(n["c"][1])
            path.append("[%s]" % (idx["val"] if "val" in idx else expr_str(idx)))
            n = strip(n["c"][0])
        elif k == "UnaryOperator" and n["op"] in ("*", "&"):
            n = strip(n["c"][0])
        elif k == "DeclRefExpr":
            path.reverse()
            return n["name"], path
        else:
            return None


def mark_failures(I):
    """wrap every library model of interpreter I: the first outcome on a path that reports failure (a negative value or NULL) is
    recorded in the monitor as mon["libfail"] = "<function>@<caller>:<line>" - whichever way the model describes errno"""
    for table, name, m in [(I.models, k, v) for k, v in I.models.items()] + [(I.overrides, k, v) for k, v in I.overrides.items() if k in OVERRIDES]:
        def w(I_, fn, n, args, st, m=m, name=name):
            res = []
            for s, v in m(I_, fn, n, args, st):
                if v != "NORETURN" and isinstance(v, frozenset) and v and (all_neg(v) or v == frozenset({"NULL"})) and "libfail" not in s.mon:
                    s = s.copy()
                    s.mon["libfail"] = "%s@%s:%d" % (name, fn.name, n["l"][0])
                res.append((s, v))
            return res
        table[name] = w
