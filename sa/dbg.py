import sys, time
from .facts import load_program, expr_str
from .absint import Interp, State, cell_str
from .models import LIBC, OVERRIDES

def show_val(v):
    return "{" + ", ".join(sorted(map(str, v))) + "}" if isinstance(v, frozenset) else str(v)

def main():
    cfg, name = sys.argv[1], sys.argv[2]
    t=time.time()
    prog = load_program(cfg)
    print("load %.2fs"%(time.time()-t))
    I = Interp(prog, models=LIBC, overrides=OVERRIDES)
    print("K=", I.K)
    t=time.time()
    res = I.run(prog.fn(name))
    print("run %.2fs"%(time.time()-t), I.stats)
    print("exits", len(res.exits), "aborts", len(res.aborts), "events", len(res.events))
    for st, rv in res.exits[:40]:
        print("  ret", show_val(rv), "mon", st.mon, "res", {k:v for k,v in st.res.items()})
    kinds={}
    for e in res.events: kinds[e[0]]=kinds.get(e[0],0)+1
    print(kinds)
main()
