"""Scratch copies of /repo for the checker self-tests (outside /repo and /verif, removed after use)."""
import os
import shutil
import subprocess
import tempfile
import time


def make(patch=None, rev=None):
    """returns (tmpdir, repo_copy) with the tracked files of /repo HEAD (or `rev`) and `patch` applied, or raises"""
    d = tempfile.mkdtemp(prefix="scratch-")
    wt = os.path.join(d, "repo")
    os.makedirs(wt)
    try:
        ar = subprocess.run(["git", "-C", "/repo", "archive", rev or "HEAD"], capture_output=True, check=True)
        subprocess.run(["tar", "-x", "-C", wt], input=ar.stdout, check=True)
        if patch:
            r = subprocess.run(["git", "apply", "--whitespace=nowarn", patch], cwd=wt, capture_output=True, text=True)
            if r.returncode != 0:
                raise RuntimeError("patch does not apply: " + r.stderr[-300:])
        return d, wt
    except Exception:
        shutil.rmtree(d, ignore_errors=True)
        raise


def remove(d):
    shutil.rmtree(d, ignore_errors=True)
