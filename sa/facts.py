"""Facts loader: runs the LibTooling extractor over a configuration of the
repository and gives python access to the resolved program.

No rule in here.  A `Program` is one *configuration* (see DESIGN.md 2.2).
"""
import json
import os
import re
import subprocess
import sys
import hashlib
from concurrent.futures import ThreadPoolExecutor

VERIF = os.path.dirname(os.path.dirname(os.path.abspath(__file__)))
EXTRACT = os.path.join(VERIF, "build", "extract")


class AnalysisBroken(Exception):
    """The analysis cannot give a verdict (exit 2); never a pass, never a violation."""


def repo_root():
    return os.path.realpath(os.environ.get("REPO", "/repo"))


def work_dir():
    d = os.environ.get("VERIF_WORK") or os.path.join(VERIF, "work")
    os.makedirs(d, exist_ok=True)
    return d


# --------------------------------------------------------------------------
# configurations

def cmake_sources(root):
    """Unit list of the `reproc` target, read from reproc/CMakeLists.txt."""
    txt = open(os.path.join(root, "reproc", "CMakeLists.txt")).read()
    m = re.search(r"target_sources\(reproc PRIVATE(.*?)\)", txt, re.S)
    if not m:
        raise AnalysisBroken("target_sources(reproc PRIVATE ...) not found in reproc/CMakeLists.txt")
    return [s.strip() for s in m.group(1).split() if s.strip()]


def config_units(root, platform):
    units = []
    for s in cmake_sources(root):
        s = s.replace("${PLATFORM}", platform)
        units.append(os.path.join(root, "reproc", s))
    # every source file present must be either listed or belong to the other platform
    srcdir = os.path.join(root, "reproc", "src")
    listed = {os.path.basename(u) for u in units}
    other = "windows" if platform == "posix" else "posix"
    for f in sorted(os.listdir(srcdir)):
        if not f.endswith(".c"):
            continue
        if f in listed:
            continue
        if f.endswith("." + other + ".c"):
            continue
        raise AnalysisBroken("source file reproc/src/%s is not part of the reproc target and is not analysed" % f)
    for u in units:
        if not os.path.exists(u):
            raise AnalysisBroken("listed source %s does not exist" % u)
    return units


CONFIGS = {
    # name: (platform, language, flags)
    "posix-mt": ("posix", "c", ["-DREPROC_MULTITHREADED", "-DNDEBUG", "-std=c99"]),
    "posix-mt-assert": ("posix", "c", ["-DREPROC_MULTITHREADED", "-UNDEBUG", "-std=c99"]),
    "posix-st": ("posix", "c", ["-DNDEBUG", "-std=c99"]),
    "win-stub": ("windows", "c", ["-D_WIN32", "-D_WIN64", "-DWIN32_LEAN_AND_MEAN", "-UNDEBUG", "-std=c99",
                                  "-I" + os.path.join(VERIF, "stubs", "win"), "-Wno-everything"]),
}


def _run_extract(args):
    src, out, flags, root = args
    cmd = [EXTRACT, "--root", root, "-o", out, src, "--"] + flags
    p = subprocess.run(cmd, stdout=subprocess.PIPE, stderr=subprocess.PIPE, text=True)
    return src, out, p.returncode, p.stderr


def extract_units(units, flags, tag, root):
    if not os.path.exists(EXTRACT):
        raise AnalysisBroken("extractor not built (run MANIFEST.setup_cmd: ./build.sh)")
    wd = os.path.join(work_dir(), "facts", tag + "-" + hashlib.sha1(root.encode()).hexdigest()[:8] + "-%d" % os.getpid())
    os.makedirs(wd, exist_ok=True)
    jobs = []
    for u in units:
        out = os.path.join(wd, os.path.basename(u) + ".json")
        jobs.append((u, out, flags, root))
    docs = []
    with ThreadPoolExecutor(max_workers=16) as ex:
        for src, out, rc, err in ex.map(_run_extract, jobs):
            if rc != 0 or not os.path.exists(out):
                raise AnalysisBroken("extractor failed on %s (config %s):\n%s" % (src, tag, err[-2000:]))
            with open(out) as fh:
                d = json.load(fh)
            os.unlink(out)
            if d.get("errors", 0):
                raise AnalysisBroken("parse errors in %s (config %s):\n%s" % (src, tag, err[-2000:]))
            docs.append(d)
    try:
        os.rmdir(wd)
    except OSError:
        pass
    return docs


# --------------------------------------------------------------------------
# program model

class Func:
    def __init__(self, d, tu_index, prog):
        self.d = d
        self.prog = prog
        self.name = d["name"]
        self.qname = d.get("qname", self.name)
        self.file = d["file"]
        self.line = d["line"]
        self.endline = d["endline"]
        self.static = d["static"]
        self.params = d["params"]
        self.tu = tu_index
        self.nodes = {}
        self.parent = {}
        self._index(d["body"], None)
        for ci in d.get("ctor_inits", []):
            self._index(ci["init"], None)
        self.body = d["body"]
        self.cfg = CFG(d["cfg"], self)

    def _index(self, n, parent):
        self.nodes[n["id"]] = n
        n["_fn"] = self
        if parent is not None:
            self.parent[n["id"]] = parent["id"]
        for c in n.get("c", []):
            self._index(c, n)

    def gdid(self, did):
        """decl ids are per TU; make them program wide"""
        return (self.tu, did)

    def walk(self, n=None):
        n = n or self.body
        stack = [n]
        while stack:
            x = stack.pop()
            yield x
            stack.extend(reversed(x.get("c", [])))

    def calls(self, callee=None):
        for n in self.walk():
            if n["k"] in CALL_KINDS:
                if callee is None or n.get("callee") == callee:
                    yield n

    def loc(self, n):
        return "%s:%d" % (os.path.relpath(self.file, self.prog.root), n["l"][0] if isinstance(n, dict) else n)

    def ancestors(self, n):
        i = n["id"]
        while i in self.parent:
            i = self.parent[i]
            yield self.nodes[i]

    def param_index(self, name):
        for i, p in enumerate(self.params):
            if p["name"] == name:
                return i
        return None

    def __repr__(self):
        return "<Func %s>" % self.name


CALL_KINDS = ("CallExpr", "CXXMemberCallExpr", "CXXOperatorCallExpr")


class Block:
    __slots__ = ("id", "elems", "term", "termk", "tcond", "label", "labelk", "noret", "succs", "preds")


class CFG:
    def __init__(self, d, fn):
        self.fn = fn
        if "blocks" not in d:
            raise AnalysisBroken("no CFG for %s" % fn.name)
        self.entry = d["entry"]
        self.exit = d["exit"]
        self.blocks = {}
        for b in d["blocks"]:
            B = Block()
            B.id = b["id"]
            B.elems = [e for e in b["elems"]]
            B.term = b.get("term")
            B.termk = b.get("termk")
            B.tcond = b.get("tcond")
            B.label = b.get("label")
            B.labelk = b.get("labelk")
            B.noret = b.get("noret", False)
            B.succs = [(s["b"], s.get("u", False)) for s in b["succs"]]
            B.preds = []
            self.blocks[B.id] = B
        for B in self.blocks.values():
            for (s, u) in B.succs:
                if s is not None:
                    self.blocks[s].preds.append(B.id)

    def edges(self, B):
        """Labelled out-edges of block B: list of (succ id, label).
        label: ('T',) / ('F',) for two-way branches on tcond, ('case', v) / ('default',)
        for switches, ('fall',) otherwise."""
        succs = B.succs
        fn = self.fn
        out = []
        if B.termk == "SwitchStmt":
            for i, (s, u) in enumerate(succs):
                if s is None:
                    continue
                sb = self.blocks[s]
                lab = fn.nodes.get(sb.label) if sb.label is not None else None
                if lab is not None and lab["k"] == "CaseStmt" and i < len(succs) - 1:
                    out.append((s, ("case", lab.get("caseval"))))
                else:
                    out.append((s, ("default",)))
            return out
        if B.tcond is not None and len(succs) == 2 and B.termk not in ("CXXTryStmt",):
            (t, _), (f, _) = succs
            if t is not None:
                out.append((t, ("T",)))
            if f is not None:
                out.append((f, ("F",)))
            return out
        if len(succs) == 2 and B.termk in ("ForStmt", "WhileStmt") and B.tcond is None:
            # for(;;): only the true edge exists
            (t, _), (f, _) = succs
            if t is not None:
                out.append((t, ("fall",)))
            return out
        for (s, u) in succs:
            if s is not None:
                out.append((s, ("fall",)))
        return out


class Program:
    def __init__(self, config, root=None):
        self.config = config
        self.root = root or repo_root()
        self.funcs = {}      # name -> Func (C) ; qname for C++
        self.funcs_all = []
        self.protos = []
        self.records = {}    # name -> record dict (first definition)
        self.records_all = []
        self.enums = []
        self.enumerators = {}
        self.vars = []       # file scope + static locals, all TUs
        self.consts = {}     # name -> int value of const objects with evaluated initialiser
        self.units = []

    def load(self, docs):
        for ti, d in enumerate(docs):
            self.units.append(d["tu"])
            for f in d["funcs"]:
                F = Func(f, ti, self)
                self.funcs_all.append(F)
                key = F.qname if d.get("cxx") else F.name
                if key in self.funcs and self.funcs[key].file != F.file:
                    # two distinct definitions with the same name (static helpers): keep both by file
                    self.funcs[key + "@" + os.path.basename(F.file)] = F
                else:
                    self.funcs.setdefault(key, F)
            for p in d["protos"]:
                p["_tu"] = ti
                self.protos.append(p)
            for r in d["records"]:
                r["_tu"] = ti
                self.records_all.append(r)
                if r["name"]:
                    self.records.setdefault(r["name"], r)
            for e in d["enums"]:
                self.enums.append(e)
                for it in e["items"]:
                    self.enumerators[it["name"]] = it["val"]
            for v in d["vars"]:
                v["_tu"] = ti
                self.vars.append(v)
        # join const object values across TUs
        defs = {}
        for v in self.vars:
            if v["scope"] == "file" and v.get("def") and "initval" in v and v["const"]:
                defs.setdefault(v["name"], set()).add(v["initval"])
        for n, vals in defs.items():
            if len(vals) != 1:
                raise AnalysisBroken("constant %s has %d different definitions" % (n, len(vals)))
            self.consts[n] = next(iter(vals))
        return self

    def fn(self, name):
        if name not in self.funcs:
            raise AnalysisBroken("function %s not found in configuration %s (anchor vanished?)" % (name, self.config))
        return self.funcs[name]

    def has_fn(self, name):
        return name in self.funcs

    def const(self, name):
        if name in self.consts:
            return self.consts[name]
        if name in self.enumerators:
            return self.enumerators[name]
        raise AnalysisBroken("constant %s not found" % name)

    def record_by_did(self, tu, did):
        for r in self.records_all:
            if r["_tu"] == tu and r["did"] == did:
                return r
        return None

    def rel(self, path):
        return os.path.relpath(path, self.root)


_cache = {}


def load_program(config, root=None):
    root = os.path.realpath(root or repo_root())
    key = (config, root)
    if key in _cache:
        return _cache[key]
    if config == "cxx":
        from . import cxxcfg
        prog = cxxcfg.load(root)
    else:
        platform, lang, flags = CONFIGS[config]
        units = config_units(root, platform)
        if config == "win-stub":
            units = [u for u in units]
        flags = list(flags) + ["-I" + os.path.join(root, "reproc", "include"),
                               "-I" + os.path.join(root, "reproc", "src")]
        docs = extract_units(units, flags, config, root)
        prog = Program(config, root).load(docs)
    _cache[key] = prog
    return prog


# --------------------------------------------------------------------------
# expression helpers (pure syntax over resolved nodes)

TRANSPARENT = ("ImplicitCastExpr", "ParenExpr", "CStyleCastExpr", "CXXStaticCastExpr", "ConstantExpr",
               "ExprWithCleanups", "MaterializeTemporaryExpr", "CXXBindTemporaryExpr", "CXXFunctionalCastExpr",
               "CXXReinterpretCastExpr", "CXXConstCastExpr", "ImplicitValueInitExpr_")


def strip(n):
    while n["k"] in TRANSPARENT and n.get("c"):
        n = n["c"][0]
    return n


def expr_str(n, depth=0):
    if depth > 40:
        return "..."
    k = n["k"]
    c = n.get("c", [])
    if k == "DeclRefExpr":
        return n["name"]
    if k in ("IntegerLiteral", "CharacterLiteral", "CXXBoolLiteralExpr"):
        return str(n.get("val"))
    if k == "StringLiteral":
        return json.dumps(n.get("str", ""))
    if k == "MemberExpr":
        if not c:
            return n["member"]
        return expr_str(c[0], depth + 1) + ("->" if n["arrow"] else ".") + n["member"]
    if k in TRANSPARENT or k == "CXXConstructExpr" and len(c) == 1:
        return expr_str(c[0], depth + 1) if c else k
    if k in ("BinaryOperator", "CompoundAssignOperator"):
        return "%s %s %s" % (expr_str(c[0], depth + 1), n["op"], expr_str(c[1], depth + 1))
    if k == "UnaryOperator":
        if n.get("postfix"):
            return expr_str(c[0], depth + 1) + n["op"]
        return n["op"] + expr_str(c[0], depth + 1)
    if k in CALL_KINDS:
        return expr_str(c[0], depth + 1) + "(" + ", ".join(expr_str(a, depth + 1) for a in c[1:]) + ")"
    if k == "ArraySubscriptExpr":
        return expr_str(c[0], depth + 1) + "[" + expr_str(c[1], depth + 1) + "]"
    if k == "ConditionalOperator":
        return "%s ? %s : %s" % tuple(expr_str(x, depth + 1) for x in c[:3])
    if k == "UnaryExprOrTypeTraitExpr":
        return "sizeof(%s)" % (n.get("argt") or (expr_str(c[0], depth + 1) if c else "?"))
    if k == "InitListExpr":
        return "{" + ", ".join(expr_str(x, depth + 1) for x in c) + "}"
    if k == "CompoundLiteralExpr":
        return "(%s)%s" % (n.get("t"), expr_str(c[0], depth + 1))
    if k == "ReturnStmt":
        return "return " + (expr_str(c[0], depth + 1) if c else "")
    if k == "DeclStmt":
        return "; ".join(expr_str(x, depth + 1) for x in c)
    if k == "VarDecl":
        return "%s %s%s" % (n["t"], n["name"], (" = " + expr_str(c[0], depth + 1)) if c else "")
    if k == "ImplicitValueInitExpr":
        return "0"
    if k == "GNUNullExpr" or k == "CXXNullPtrLiteralExpr":
        return "NULL"
    return k


def in_macro(n, name):
    return name in n.get("m", [])


def is_call_to(n, name):
    return n["k"] in CALL_KINDS and n.get("callee") == name


def call_args(n):
    return n["c"][1:]
