"""E-LIN: linear forms over program symbols, for 'size computed >= bytes written' comparisons.

A linear form is {symbol: coefficient} with the constant under symbol 1.  Symbols are printed sub-expressions
(variables, strlen(x), x.size(), ...), all of which denote non-negative quantities in the places this is used,
so `a >= b` holds if it holds coefficient-wise."""
from .facts import strip, expr_str, CALL_KINDS


def lin(n, env=None, depth=0):
    """linear form of expression n, or None if it is not linear. env: {variable name: linear form} substitutions"""
    env = env or {}
    n = strip(n)
    k = n["k"]
    if "val" in n and isinstance(n["val"], int) and k not in ("DeclRefExpr",):
        return {1: n["val"]}
    if k in ("IntegerLiteral", "CharacterLiteral"):
        return {1: n["val"]}
    if k == "DeclRefExpr":
        if n["name"] in env:
            return dict(env[n["name"]])
        if n.get("dk") == "enum":
            return {1: n["val"]}
        return {n["name"]: 1}
    if k == "BinaryOperator":
        op = n["op"]
        a = lin(n["c"][0], env, depth + 1)
        b = lin(n["c"][1], env, depth + 1)
        if a is None or b is None:
            return None
        if op == "+":
            return add(a, b)
        if op == "-":
            return add(a, scale(b, -1))
        if op == "*":
            if set(a) <= {1}:
                return scale(b, a.get(1, 0))
            if set(b) <= {1}:
                return scale(a, b.get(1, 0))
            return None
        return None
    if k in CALL_KINDS or k in ("MemberExpr", "ArraySubscriptExpr", "UnaryOperator", "CXXMemberCallExpr"):
        return {sym(n): 1}
    if k == "UnaryExprOrTypeTraitExpr":
        return {1: n["val"]} if "val" in n else {sym(n): 1}
    if k == "ConditionalOperator":
        return {sym(n): 1}
    return None


def sym(n):
    return expr_str(n)


def add(a, b):
    out = dict(a)
    for k, v in b.items():
        out[k] = out.get(k, 0) + v
    return {k: v for k, v in out.items() if v != 0}


def scale(a, c):
    return {k: v * c for k, v in a.items() if v * c != 0}


def geq(a, b):
    """a >= b for all non-negative values of the symbols"""
    d = add(a, scale(b, -1))
    return all(v >= 0 for v in d.values())


def show(a):
    if a is None:
        return "<non-linear>"
    parts = []
    for k, v in sorted(a.items(), key=lambda kv: str(kv[0])):
        if k == 1:
            parts.append(str(v))
        elif v == 1:
            parts.append(str(k))
        else:
            parts.append("%d*%s" % (v, k))
    return " + ".join(parts) if parts else "0"
