"""Check driver: obligations, floors, evidence, known findings, exit codes."""
import json
import os
import sys
import time
import traceback

from .facts import AnalysisBroken, load_program, VERIF, repo_root, expr_str


class Obligation:
    __slots__ = ("rule", "site", "what", "ok", "detail", "nontrivial", "path")

    def __init__(self, rule, site, what, ok, detail=None, nontrivial=False, path=None):
        self.rule = rule
        self.site = site
        self.what = what
        self.ok = ok
        self.detail = detail
        self.nontrivial = nontrivial
        self.path = path

    def as_dict(self):
        d = {"rule": self.rule, "site": self.site, "what": self.what, "ok": self.ok}
        if self.detail is not None:
            d["detail"] = self.detail
        if self.path:
            d["path"] = self.path
        return d


class Ctx:
    def __init__(self, prop, tier):
        self.prop = prop
        self.tier = tier
        self.obs = []
        self.counts = {}
        self.engine_stats = {}
        self.configs_used = set()
        self.floor_failures = []
        self.notes = []
        self.exhaustive = False
        self.extra = {}

    def prog(self, config):
        self.configs_used.add(config)
        return load_program(config)

    def ob(self, rule, site, what, ok, detail=None, nontrivial=False, path=None):
        o = Obligation(rule, site, what, bool(ok), detail, nontrivial, path)
        self.obs.append(o)
        self.counts[rule] = self.counts.get(rule, 0) + 1
        return o.ok

    def floor(self, rule, minimum, what=""):
        n = self.counts.get(rule, 0)
        if n < minimum:
            # deferred: a rule that matched too few instances must not pass vacuously, but it does not take back a violation
            # that another obligation has already established
            self.floor_failures.append("rule %s matched %d instance(s), fewer than the %d confirmed by hand%s: "
                                 "an anchor moved or vanished; the rule must be re-confirmed, no verdict"
                                 % (rule, n, minimum, (" (" + what + ")") if what else ""))

    def stats(self, name, st):
        cur = self.engine_stats.setdefault(name, {})
        for k, v in st.items():
            if k.startswith("max"):
                cur[k] = max(cur.get(k, 0), v)
            else:
                cur[k] = cur.get(k, 0) + v

    def note(self, s):
        self.notes.append(s)


def load_known():
    p = os.path.join(VERIF, "known_findings.json")
    if not os.path.exists(p):
        return []
    return json.load(open(p))["findings"]


def site_matches(entry, ob):
    return entry.get("rule") == ob.rule and entry.get("site") == ob.site


def run_check(prop, module, tier, explanation, assumptions, seed=0):
    t0 = time.time()
    ctx = Ctx(prop, tier)
    evdir = os.environ.get("VERIF_EVIDENCE_DIR") or os.path.join(VERIF, "evidence")
    evidence_path = os.path.join(evdir, prop + ".json")
    os.makedirs(os.path.dirname(evidence_path), exist_ok=True)
    try:
        try:
            module.check(ctx)
        except AnalysisBroken as e:
            # a later analysis of this check could not be completed; obligations that had already failed stay failed (a violation
            # established by one rule is not taken back because another rule ran out of precision) - otherwise: no verdict
            if all(o.ok for o in ctx.obs):
                raise
            ctx.floor_failures.append("analysis stopped early: %s" % e)
        if ctx.floor_failures and all(o.ok for o in ctx.obs):
            raise AnalysisBroken(ctx.floor_failures[0])
        for m in ctx.floor_failures:
            print("note: %s" % m)
    except AnalysisBroken as e:
        sys.stderr.write("ANALYSIS-BROKEN property=%s: %s\n" % (prop, e))
        # leave no stale evidence behind
        if os.path.exists(evidence_path):
            os.unlink(evidence_path)
        return 2
    except Exception:
        sys.stderr.write("ANALYSIS-BROKEN property=%s: internal error\n%s\n" % (prop, traceback.format_exc()))
        if os.path.exists(evidence_path):
            os.unlink(evidence_path)
        return 2

    known = [k for k in load_known() if k.get("property") == prop and k.get("status") == "known"]
    failed = []
    seen_fail = set()
    for o in ctx.obs:
        if not o.ok and (o.rule, o.site) not in seen_fail:
            seen_fail.add((o.rule, o.site))
            failed.append(o)
    unlisted = []
    listed = []
    for o in failed:
        hit = [k for k in known if site_matches(k, o)]
        if hit:
            listed.append((o, hit[0]))
        else:
            unlisted.append(o)

    replay_dir = os.path.join(evdir, "replay")
    os.makedirs(replay_dir, exist_ok=True)
    # remove stale replay files of this property
    for f in os.listdir(replay_dir):
        if f.startswith(prop + "-"):
            os.unlink(os.path.join(replay_dir, f))

    for o, k in listed:
        print("KNOWN-FINDING: property=%s %s [%s @ %s]" % (prop, k.get("what", o.what), o.rule, o.site))
    for i, o in enumerate(unlisted):
        rp = os.path.join(replay_dir, "%s-%d.json" % (prop, i))
        with open(rp, "w") as fh:
            json.dump({"property": prop, "repo": repo_root(), **o.as_dict()}, fh, indent=1, default=str)
        print("VIOLATION property=%s replay=%s" % (prop, rp))
        print("  rule %s at %s: %s" % (o.rule, o.site, o.what))
        if o.detail:
            print("  detail: %s" % (json.dumps(o.detail, default=str)[:1200]))

    distinct_nontrivial = len({(o.rule, o.site, o.what) for o in ctx.obs if o.nontrivial})
    samples = []
    seen_rules = set()
    for o in ctx.obs:
        if o.rule not in seen_rules or not o.ok:
            seen_rules.add(o.rule)
            samples.append(o.as_dict())
    samples = samples[:60]
    cov = {
        "explanation": explanation,
        "evaluations": len(ctx.obs),
        "distinct_nontrivial": distinct_nontrivial,
        "rule": "one evaluation = one rule instance (an obligation at a concrete site: function, call site, "
                "CFG path family or abstract state) decided from /repo's current source; non-trivial = the "
                "verdict needed CFG path / abstract-state exploration or a table comparison rather than a lookup; "
                "distinct = distinct (rule, site, obligation) triples",
        "samples": samples,
        "obligations": len(ctx.obs),
        "discharged": len([o for o in ctx.obs if o.ok]),
        "instances_per_rule": ctx.counts,
        "configs": sorted(ctx.configs_used),
        "engine": ctx.engine_stats,
        "repo": repo_root(),
        "known_findings_reported": len(listed),
        "notes": ctx.notes,
    }
    cov.update(ctx.extra)
    if ctx.exhaustive:
        cov["exhaustive"] = True
    ev = {
        "property_id": prop,
        "tier": tier,
        "seed": seed,
        "level": "other",
        "coverage": cov,
        "assumptions": assumptions,
        "wall_s": round(time.time() - t0, 3),
        "violations": len(unlisted),
    }
    with open(evidence_path, "w") as fh:
        json.dump(ev, fh, indent=1, default=str)
    print("%s: %d obligations over %d rules, %d discharged, %d violations, %d known findings (%.2fs, configs %s)"
          % (prop, len(ctx.obs), len(ctx.counts), cov["discharged"], len(unlisted), len(listed),
             time.time() - t0, ",".join(sorted(ctx.configs_used))))
    return 1 if unlisted else 0
