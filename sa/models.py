"""Models of the libc / POSIX calls reproc makes, for E-ABS.

Each model is `f(interp, fn, node, args, state) -> [(state', retval)]`
(disjunctive outcomes: at least the failing and the succeeding outcome of every
fallible call).  Models record *events* in interp.events so rules can inspect
call sites with the abstract state at that point.

Resources: st.res[token] = ('open'|'closed', cloexec:bool|None) for descriptors,
('live'|'freed') for heap blocks.  st.mon carries process level abstractions:
  'proc'      'parent' | 'child'           (which side of fork this path is on)
  'sigmask'   value set of the thread's signal mask (atoms ('sym','ORIG'|'FULL'|'EMPTY'))
"""
from .absint import INF, is_int, State, cell_has_prefix
from .facts import AnalysisBroken

NORETURN = "NORETURN"


def ev(I, kind, fn, node, info, st):
    I.events.append((kind, fn, node, info, st, tuple((f.name for f in I.stack)), tuple(I.callsites)))


def fs(*a):
    return frozenset(a)


def failed(st, fn, n, what=None):
    """mark the first failing library call on this path (used by the all-or-nothing rules)"""
    if "failed" in st.mon or "nofail" in st.mon:
        return st
    s = st.copy()
    s.mon["failed"] = "%s@%s:%d" % (what or n.get("callee"), fn.name, n["l"][0])
    return s


def targets(I, val):
    return [a[1] for a in val if isinstance(a, tuple) and a[0] == "addr"]


def havoc_targets(I, st, val):
    s = st.copy()
    for t in targets(I, val):
        s.mem.pop(t, None)
        I.kill_prefix(s, t)
        if t[0] == "i":
            # a buffer: every element unknown
            for k in [k for k in s.mem if k[0] == "i" and k[1] == t[1]]:
                del s.mem[k]
    return s


def m_noreturn(I, fn, n, args, st):
    ev(I, "noreturn", fn, n, n.get("callee"), st)
    return [(st, NORETURN)]


def m_errno_location(I, fn, n, args, st):
    return [(st, fs(("addr", ("g", "errno"))))]


def new_fd(I, fn, n, st, idx=0, cloexec=False, kind="fd"):
    inst = 0
    while ("fd", "%s:%d" % (fn.name, n["l"][0]), idx, inst) in st.res:
        inst += 1
    tok = ("fd", "%s:%d" % (fn.name, n["l"][0]), idx, inst)
    s = st.copy()
    s.res[tok] = ("open", cloexec, kind)
    return s, tok


def m_pipe(I, fn, n, args, st):
    out = [(failed(st, fn, n), fs(-1))]
    s, t0 = new_fd(I, fn, n, st, 0, False, "pipe-read")
    s, t1 = new_fd(I, fn, n, s, 1, False, "pipe-write")
    for t in targets(I, args[0]):
        base = t[1] if t[0] == "i" else t
        s.mem[("i", base, 0)] = fs(t0)
        s.mem[("i", base, 1)] = fs(t1)
    ev(I, "fd-create", fn, n, ("pipe", t0, t1), s)
    out.append((s, fs(0)))
    return out


def m_open(I, fn, n, args, st):
    flags_node = n["c"][2] if len(n["c"]) > 2 else None
    cloexec = None
    if flags_node is not None:
        cloexec = or_contains_const(flags_node, 0o2000000, fn)
    s, t = new_fd(I, fn, n, st, 0, bool(cloexec), "file")
    ev(I, "fd-create", fn, n, ("open", t, cloexec), s)
    return [(failed(st, fn, n), fs(-1)), (s, fs(t))]


def or_contains_const(node, value, fn=None, depth=0):
    """does the `|` tree of node contain a constant operand with all bits of `value`?  A local with a single definition (its
    initialiser, never written again) stands for that initialiser when the function is given."""
    from .facts import strip
    node = strip(node)
    if "val" in node and is_int(node["val"]):
        return (node["val"] & value) == value
    if node["k"] == "BinaryOperator" and node["op"] == "|":
        return any(or_contains_const(c, value, fn, depth) for c in node["c"])
    if fn is not None and depth < 4 and node["k"] == "DeclRefExpr" and node.get("dk") == "local":
        decls = [x for x in fn.nodes.values() if x["k"] == "VarDecl" and x.get("did") == node.get("did") and x.get("c")]
        writes = [x for x in fn.nodes.values() if (x["k"] in ("BinaryOperator", "CompoundAssignOperator") and x.get("op", "").endswith("=")
                                                   and x["op"] not in ("==", "!=", "<=", ">=") or x["k"] == "UnaryOperator" and x.get("op") in ("++", "--"))
                  and strip(x["c"][0])["k"] == "DeclRefExpr" and strip(x["c"][0]).get("did") == node.get("did")]
        if len(decls) == 1 and not writes:
            return or_contains_const(decls[0]["c"][0], value, fn, depth + 1)
    return False


def m_close(I, fn, n, args, st):
    s = st.copy()
    for a in args[0]:
        if isinstance(a, tuple) and a[0] == "fd":
            cur = s.res.get(a)
            if cur is not None and cur[0] == "closed":
                ev(I, "double-close", fn, n, a, st)
            if cur is not None:
                s.res[a] = ("closed",) + tuple(cur[1:])
            if len(args[0]) > 1:
                ev(I, "close-ambiguous", fn, n, args[0], st)
        elif isinstance(a, tuple) and a[0] in ("ext", "uh"):
            ev(I, "close-foreign", fn, n, a, st)
        else:
            ev(I, "close-raw", fn, n, a, st)
    ev(I, "close", fn, n, args[0], st)
    # a failing close (EINTR, EIO) has released the descriptor all the same (Linux; POSIX leaves it unspecified)
    return [(s, fs(0)), (s, fs(-1))]


def m_fork(I, fn, n, args, st):
    ev(I, "fork", fn, n, None, st)
    if st.mon.get("proc") == "child":
        ev(I, "fork-in-child", fn, n, None, st)
    child = st.copy()
    child.mon["proc"] = "child"
    parent = st.copy()
    parent.mon["proc"] = "parent"
    pid = ("pid", "%s:%d" % (fn.name, n["l"][0]), 0)
    parent.res[pid] = ("running",)
    return [(failed(st, fn, n), fs(-1)), (child, fs(0)), (parent, fs(pid))]


def m_waitpid(I, fn, n, args, st):
    ev(I, "waitpid", fn, n, (args[0], args[2] if len(args) > 2 else None), st)
    s_ok = havoc_targets(I, st, args[1]) if len(args) > 1 else st.copy()
    for a in args[0]:
        if isinstance(a, tuple) and a[0] == "pid":
            cur = s_ok.res.get(a)
            if cur == ("reaped",):
                ev(I, "double-reap", fn, n, a, st)
            s_ok.res[a] = ("reaped",)
    other = frozenset(a for a in I.pos() if a != EINTR)
    s_gone = st.copy()
    for a in args[0]:
        if isinstance(a, tuple) and a[0] == "pid" and s_gone.res.get(a) == ("running",):
            s_gone.res[a] = ("gone",)       # ECHILD: somebody else reaped it; nothing is left behind
    s_int = st.copy()
    if "nofail" not in st.mon:
        s_int.mon["eintr"] = "%s@%s:%d" % (n.get("callee"), fn.name, n["l"][0])
    s_gone.mon.pop("eintr", None)
    s_ok.mon.pop("eintr", None)
    outs = [(with_errno(s_int, fs(EINTR)), fs(-1)), (with_errno(failed(s_gone, fn, n), other), fs(-1)), (s_ok, args[0])]
    if len(args) > 2 and args[2] != fs(0):
        # WNOHANG (or any other option set): "nothing to report yet" - returns 0, status word untouched, child not reaped
        s_none = st.copy()
        s_none.mon.pop("eintr", None)
        outs.append((s_none, fs(0)))
    return outs


WAITID_SAMPLE = {"exited": 7, "killed": 9, "dumped": 11}      # representative exit code / signals of the decode rule (C01.R5w)


def m_waitid(I, fn, n, args, st):
    """waitid(P_PID, pid, &info, WEXITED): like waitpid(pid, &s, 0) but returns 0 and reports through siginfo_t:
    si_code CLD_EXITED(1)/CLD_KILLED(2)/CLD_DUMPED(3), si_status = exit code / signal number (Linux values)."""
    from .facts import strip
    raw = strip(n["c"][4]).get("val") if len(n.get("c", [])) > 4 else None
    idt = strip(n["c"][1]).get("val") if len(n.get("c", [])) > 1 else None
    # normalised for the rules on the reap: options 0 <=> blocks, and only for termination (exactly WEXITED); a first
    # argument other than P_PID reaps children that are not this handle's
    pidv = args[1] if idt == 1 else fs(-1)
    ev(I, "waitpid", fn, n, (pidv, fs(0) if raw == 4 else I.pos()), st)
    outs = []
    for kind, code in (("exited", 1), ("killed", 2), ("dumped", 3)):
        s_ok = havoc_targets(I, st, args[2])
        for a in args[1]:
            if isinstance(a, tuple) and a[0] == "pid":
                if s_ok.res.get(a) == ("reaped",):
                    ev(I, "double-reap", fn, n, a, st)
                s_ok.res[a] = ("reaped",)
        for t in targets(I, args[2]):
            s_ok.mem[("f", t, "si_code")] = fs(I.abs_int(code))
            sv = WAITID_SAMPLE[kind]
            if st.mon.get("waitid_concrete") and sv in I.Kset:
                val = fs(sv)
            else:
                val = I.nonneg() if kind == "exited" else I.pos()
            s_ok.mem[("f", ("f", ("f", t, "_sifields"), "_sigchld"), "si_status")] = val
            s_ok.mem[("f", ("f", ("f", t, "_sifields"), "_sigchld"), "si_pid")] = args[1]
        s_ok.mon.pop("eintr", None)
        s_ok.mon["wait_kind"] = kind
        outs.append((s_ok, fs(0)))
    other = frozenset(a for a in I.pos() if a != EINTR)
    s_gone = st.copy()
    for a in args[1]:
        if isinstance(a, tuple) and a[0] == "pid" and s_gone.res.get(a) == ("running",):
            s_gone.res[a] = ("gone",)
    s_int = st.copy()
    if "nofail" not in st.mon:
        s_int.mon["eintr"] = "%s@%s:%d" % (n.get("callee"), fn.name, n["l"][0])
    s_gone.mon.pop("eintr", None)
    return [(with_errno(s_int, fs(EINTR)), fs(-1)), (with_errno(failed(s_gone, fn, n), other), fs(-1))] + outs


def m_kill(I, fn, n, args, st):
    ev(I, "kill", fn, n, (args[0], args[1]), st)
    return [(st, fs(0)), (st, fs(-1))]


EINTR = 4


def interrupted(st, fn, n):
    if "nofail" in st.mon:
        return st
    s = st.copy()
    s.mon["eintr"] = "%s@%s:%d" % (n.get("callee"), fn.name, n["l"][0])
    s.mon["lastread"] = "eintr"
    return s


def not_interrupted(st, how=None):
    if "nofail" in st.mon:
        return st
    s = st.copy()
    s.mon.pop("eintr", None)
    if how:
        s.mon["lastread"] = how
    return s


def with_errno(st, val):
    s = st.copy()
    s.mem[("g", "errno")] = val
    s.tmp[("errno_set",)] = True
    return s


def m_read(I, fn, n, args, st):
    """blocking read on a valid descriptor: interrupted, other failure, end of file, or data"""
    ev(I, "read", fn, n, args, st)
    s = havoc_targets(I, st, args[1])
    outs = [(interrupted(with_errno(st, fs(EINTR)), fn, n), fs(-1)),
            (not_interrupted(st, "eof"), fs(0)), (not_interrupted(s, "data"), I.pos())]
    if any(st.res.get(("nb", a)) not in (None, fs(0)) for a in args[0] if isinstance(a, tuple)) or \
            not any(isinstance(a, tuple) and a[0] == "fd" for a in args[0]):
        # descriptor (possibly) in nonblocking mode: would-block is a further failure mode
        outs.append((not_interrupted(with_errno(failed(st, fn, n), fs(I.abs_int(11))), "fail"), fs(-1)))
    elif getattr(I, "env_faults", False):
        # environment fault (EIO and the like on a valid blocking descriptor): only for the checks that ask for it (C05)
        s2 = not_interrupted(with_errno(st, frozenset(a for a in I.pos() if a != EINTR)), "fault")
        if "nofail" not in st.mon:
            s2.mon["envfault"] = "%s@%s:%d" % (n.get("callee"), fn.name, n["l"][0])
        outs.append((s2, fs(-1)))
    return outs


def m_write(I, fn, n, args, st):
    ev(I, "write", fn, n, args, st)
    return [(failed(st, fn, n), fs(-1)), (st, I.nonneg())]


def m_fcntl(I, fn, n, args, st):
    ev(I, "fcntl", fn, n, args, st)
    cmd = args[1]
    # F_DUPFD_CLOEXEC = 1030, F_DUPFD = 0
    if cmd == fs(I.abs_int(1030)) and 1030 in I.Kset or cmd == fs(0):
        s, t = new_fd(I, fn, n, st, 0, cmd != fs(0), "dup")
        ev(I, "fd-create", fn, n, ("dupfd", t, args[0]), s)
        s.res[t] = ("open", cmd != fs(0), "dup", args[0])
        return [(failed(st, fn, n), fs(-1)), (s, fs(t))]
    if cmd == fs(1):
        # F_GETFD is the "is this a descriptor" probe: failing (EBADF) is an answer, not an error.  For a number obtained from
        # fileno() it settles whether the descriptor behind the FILE is still open
        probed = [a for a in args[0] if isinstance(a, tuple) and a[0] == "ext" and st.res.get(a, ("?",))[0] == "maybe-closed"]
        if len(probed) == 1 and len(args[0]) == 1:
            bad = with_errno(st, fs(I.abs_int(9)))
            bad.res[probed[0]] = ("closed",)
            good = st.copy()
            good.res[probed[0]] = ("open",)
            return [(bad, fs(-1)), (good, I.nonneg())]
        return [(st, fs(-1)), (st, I.nonneg())]
    return [(failed(st, fn, n), fs(-1)), (st, I.nonneg())]


def m_dup2(I, fn, n, args, st):
    ev(I, "dup2", fn, n, (args[0], args[1]), st)
    s = st.copy()
    for a in args[1]:
        if is_int(a) and 0 <= a <= 2 and len(args[1]) == 1:
            # target slot now holds whatever args[0] is; dup2(x, x) leaves flags alone
            same = (args[0] == args[1])
            s.res[("slot", a)] = ("installed", args[0], "same" if same else "dup")
            s.res.pop(("slotflag", a), None)
    return [(failed(st, fn, n), fs(-1)), (s, args[1])]


def new_mem(I, fn, n, st):
    site = "%s:%d" % (fn.name, n["l"][0])
    inst = 0
    while ("mem", site, inst) in st.res:
        inst += 1
        if inst >= 3:
            break
    tok = ("mem", site, inst)
    s = st.copy()
    if inst >= 3:
        # allocation site reached again and again while earlier blocks are live (loop): summarise
        tok = ("mem", site, "many")
    s.res[tok] = ("live",)
    return s, tok


def m_alloc(I, fn, n, args, st):
    s, t = new_mem(I, fn, n, st)
    ev(I, "alloc", fn, n, t, s)
    return [(failed(st, fn, n), fs("NULL")), (s, fs(t))]


def m_realloc(I, fn, n, args, st):
    s, t = new_mem(I, fn, n, st)
    for a in args[0]:
        if isinstance(a, tuple) and a[0] == "mem":
            s.res[a] = ("moved",)
    ev(I, "alloc", fn, n, t, s)
    return [(failed(st, fn, n), fs("NULL")), (s, fs(t))]


def m_free(I, fn, n, args, st):
    s = st.copy()
    for a in args[0]:
        if isinstance(a, tuple) and a[0] == "mem":
            cur = s.res.get(a)
            if cur in (("freed",), ("moved",)) and a[2] != "many":
                ev(I, "double-free", fn, n, a, st)
            if len(args[0] - {"NULL"}) == 1:
                s.res[a] = ("freed",)
            else:
                s.res[a] = ("maybe-freed",)
        elif a == "NULL":
            pass
        elif isinstance(a, tuple) and a[0] == "addr":
            ev(I, "free-nonheap", fn, n, a, st)
    ev(I, "free", fn, n, args[0], st)
    return [(s, fs())]


def m_getcwd(I, fn, n, args, st):
    ev(I, "getcwd", fn, n, args, st)
    outs = [(failed(st, fn, n), fs("NULL"))]
    if "NULL" in args[0]:
        # getcwd(NULL, n): the library allocates the buffer (glibc, musl, the BSDs, POSIX.1-2008 extension); the caller owns it
        s, t = new_mem(I, fn, n, st)
        outs.append((s, fs(t)))
    rest = frozenset(a for a in args[0] if a != "NULL")
    if rest:
        outs.append((havoc_targets(I, st, rest), rest))
    return outs


def m_execvp(I, fn, n, args, st):
    ev(I, "exec", fn, n, args, st)
    I.result.aborts.append((st, n, fn))
    return [(failed(st, fn, n), fs(-1))]


def m_sigset(kind):
    def m(I, fn, n, args, st):
        s = st.copy()
        for t in targets(I, args[0]):
            I.kill_prefix(s, t)
            s.mem[t] = fs(("sym", kind))
        return [(failed(st, fn, n), fs(-1)), (s, fs(0))]
    return m


def m_sigmask(errpos):
    def m(I, fn, n, args, st):
        ev(I, "sigmask", fn, n, args, st)
        s = st.copy()
        cur = s.mon.get("sigmask", fs(("sym", "ORIG")))
        newv = None
        if args[1] - {"NULL"}:
            vals = set()
            for t in targets(I, args[1]):
                vals |= s.mem.get(t, fs(("sym", "UNKNOWN")))
            newv = frozenset(vals)
        for t in targets(I, args[2]):
            I.kill_prefix(s, t)
            s.mem[t] = cur
        if newv is not None:
            how = args[0]
            s.mon["sigmask"] = newv if how == fs(I.abs_int(2)) else fs(("sym", "UNKNOWN"))
        fail = I.pos() if errpos else fs(-1)
        if newv == fs(("sym", "ORIG")) and not getattr(I, "restore_may_fail", False):
            # C12 excludes a failure of the restoring call itself (C04.E4m turns it on: fault sequences include it)
            return [(s, fs(0))]
        return [(failed(st, fn, n), fail), (s, fs(0))]
    return m


def m_sigaction(I, fn, n, args, st):
    """fails with EINVAL for signal numbers that cannot be changed (tolerated by callers), or otherwise"""
    ev(I, "sigaction", fn, n, args, st)
    other = frozenset(a for a in I.pos() if a != 22)
    return [(with_errno(st, fs(22)), fs(-1)), (with_errno(failed(st, fn, n), other), fs(-1)), (st, fs(0))]


def m_chdir(I, fn, n, args, st):
    ev(I, "chdir", fn, n, args, st)
    return [(failed(st, fn, n), fs(-1)), (st, fs(0))]


def m_getrlimit(I, fn, n, args, st):
    s = havoc_targets(I, st, args[1])
    return [(failed(st, fn, n), fs(-1)), (s, fs(0))]


def m_poll(I, fn, n, args, st):
    ev(I, "poll", fn, n, args, st)
    s = havoc_targets(I, st, args[0])
    return [(failed(st, fn, n), fs(-1)), (s, fs(0)), (s, I.pos())]


def m_clock(I, fn, n, args, st):
    s = havoc_targets(I, st, args[1])
    return [(s, fs(0)), (st, fs(-1))]


def m_fileno(I, fn, n, args, st):
    # fileno() fails only with EBADF (the stream has no valid descriptor)
    return [(with_errno(st, fs(I.abs_int(9))), fs(-1)), (st, fs(("ext", "fileno")))]


def m_pure_int(I, fn, n, args, st):
    return [(st, I.TOP_INT)]


def m_nonneg(I, fn, n, args, st):
    return [(st, I.nonneg())]


def m_strchr(I, fn, n, args, st):
    return [(st, fs("NULL", "PTR"))]


def m_memcpy(I, fn, n, args, st):
    s = havoc_targets(I, st, args[0])
    return [(s, args[0])]


def m_strerror_r(I, fn, n, args, st):
    s = havoc_targets(I, st, args[1])
    return [(s, I.nonneg())]


LIBC = {
    "_exit": m_noreturn, "exit": m_noreturn, "abort": m_noreturn, "__assert_fail": m_noreturn,
    "__errno_location": m_errno_location,
    "pipe": m_pipe, "open": m_open, "close": m_close,
    "fork": m_fork, "waitpid": m_waitpid, "waitid": m_waitid, "kill": m_kill,
    "read": m_read, "write": m_write, "fcntl": m_fcntl, "dup2": m_dup2,
    "malloc": m_alloc, "calloc": m_alloc, "strdup": m_alloc, "realloc": m_realloc, "free": m_free,
    "getcwd": m_getcwd, "execvp": m_execvp,
    "sigfillset": m_sigset("FULL"), "sigemptyset": m_sigset("EMPTY"),
    "pthread_sigmask": m_sigmask(True), "sigprocmask": m_sigmask(False),
    "sigaction": m_sigaction, "chdir": m_chdir, "getrlimit": m_getrlimit,
    "poll": m_poll, "clock_gettime": m_clock, "fileno": m_fileno,
    "strlen": m_nonneg, "abs": m_nonneg, "strchr": m_strchr,
    "memcpy": m_memcpy, "strcpy": m_memcpy, "memset": m_memcpy,
    "strerror_r": m_strerror_r, "__xpg_strerror_r": m_strerror_r,
}


# ---------------------------------------------------------------------------
# overrides for two bit twiddling leaf helpers of reproc whose effect the
# integer domain cannot express; their bodies are checked by leaf-contract
# rules (C11.X0 / C17.N0) instead.

def o_handle_cloexec(I, fn, n, args, st):
    ev(I, "cloexec", fn, n, (args[0], args[1]), st)
    s = st.copy()
    en = args[1]
    flag = True if en == fs(1) else False if en == fs(0) else None
    for a in args[0]:
        if isinstance(a, tuple) and a[0] == "fd":
            cur = s.res.get(a, ("open", None, "?"))
            if len(args[0]) == 1:
                s.res[a] = (cur[0], flag) + tuple(cur[2:])
            else:
                s.res[a] = (cur[0], None) + tuple(cur[2:])
        elif is_int(a) and 0 <= a <= 2 and len(args[0]) == 1:
            s.res[("slotflag", a)] = flag
    return [(st, I.neg()), (s, fs(0))]


def o_pipe_nonblocking(I, fn, n, args, st):
    ev(I, "nonblocking", fn, n, (args[0], args[1]), st)
    s = st.copy()
    s.mon = dict(s.mon)
    for a in args[0]:
        if isinstance(a, tuple) and a[0] == "fd":
            s.res[("nb", a)] = args[1]
    return [(st, I.neg()), (s, fs(0))]


OVERRIDES = {"handle_cloexec": o_handle_cloexec, "pipe_nonblocking": o_pipe_nonblocking}
