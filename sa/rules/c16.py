"""C16 - drain and run deliver each stream to its sink with the documented protocol (narrow)."""
from ..facts import AnalysisBroken, strip, expr_str
from ..absint import State, walk_nodes
from ..models import fs, ev, failed
from ..rulelib import *
from .. import linexpr as L

EXPLANATION = (
    "Static analysis of the drain/run protocol skeleton by abstract interpretation of reproc_drain with symbolic sinks "
    "(distinct function/context tokens for the two sinks; reproc_poll / reproc_read replaced by outcome models: every error "
    "class, closed pipe, every event combination): opening calls (both sinks once, empty, tagged as input stream, before any "
    "poll), stream/sink/context/buffer/size agreement of every dispatch, return-value provenance (0 only via the closed-pipe "
    "result of poll, deadline -> timeout error, first non-zero sink result returned at once), sink_string size/writer agreement "
    "(linear forms) and failure atomicity, reproc_run_ex ordering, first-error propagation and destroy on every path; the C++ "
    "templates are instantiated and mirror the C skeleton. Not decided: which chunks arrive in which order from the two streams. The string sink's append offset is a variable whose only definitions are 0 and strlen() of the caller's current string; poll reports an expired deadline at once as the only event (C09.V3d), which is what makes drain return the timeout error. No function of reproc++ resolved as non-throwing performs a throwing standard-library operation (G6x); the drain model of poll reports every event the source asks for (a drain that returns on the exit event is seen).")
ASSUMPTIONS = [
    "clang 14 parser/CFG and the fact extractor are correct",
    "reproc_poll / reproc_read behave as their own properties (C09, C02) say; here they are outcome models",
    "realloc either fails leaving the old block valid or returns a block of the requested size",
]


def drain_models(prog, I):
    EPIPE = prog.const("REPROC_EPIPE")
    OUT, ERR, DL = prog.const("REPROC_EVENT_OUT"), prog.const("REPROC_EVENT_ERR"), prog.const("REPROC_EVENT_DEADLINE")
    EXIT, IN = prog.const("REPROC_EVENT_EXIT"), prog.const("REPROC_EVENT_IN")

    def sink(which):
        def m(I_, fn, n, args, st):
            s = st.copy()
            s.mon["ncalls"] = min(3, s.mon.get("ncalls", 0) + 1)
            ev(I_, "sink", fn, n, (which, args), s)
            if s.mon.get("stopped"):
                ev(I_, "after-stop", fn, n, which, s)
            ok = s.copy()
            outs = [(ok, fs(0))]
            for val, tag in ((I_.pos(), "pos"), (I_.neg(), "neg")):
                b = s.copy()
                b.mon["last"] = ("sink", which, tag)
                b.mon["stopped"] = True
                outs.append((b, val))
            return outs
        return m

    def o_poll(I_, fn, n, args, st):
        s0 = st.copy()
        ints = None
        for t in [x[1] for x in args[0] if isinstance(x, tuple) and x[0] == "addr"]:
            base = t[1] if t[0] == "i" else t
            ints = st.mem.get(("f", base, "interests")) or st.mem.get(("f", ("i", base, 0), "interests"))
        s0.mon["poll_interests"] = ints
        ev(I_, "poll", fn, n, args, s0)
        if s0.mon.get("stopped"):
            ev(I_, "after-stop", fn, n, "poll", s0)
        outs = []
        a = s0.copy()
        a.mon["last"] = ("poll", "epipe")
        outs.append((a, fs(EPIPE)))
        b = s0.copy()
        b.mon["last"] = ("poll", "neg")
        outs.append((b, frozenset(x for x in I_.neg() if x != EPIPE)))
        combos = [OUT, ERR, OUT | ERR, DL, DL | OUT, DL | ERR, DL | OUT | ERR]
        # a source that also asks for other events (exit, in) gets them reported, alone or with the output events
        known = ints is not None and all(isinstance(x, int) for x in ints)
        for bit in (EXIT, IN):
            if not known or any(x & bit for x in ints):
                combos += [bit, bit | OUT, bit | ERR, bit | OUT | ERR]
        for evs in combos:
            c = s0.copy()
            for t in [x[1] for x in args[0] if isinstance(x, tuple) and x[0] == "addr"]:
                base = t[1] if t[0] == "i" else t
                c.mem[("f", base, "events")] = fs(I_.abs_int(evs))
                c.mem[("f", ("i", base, 0), "events")] = fs(I_.abs_int(evs))
            c.mon["last"] = ("poll", "deadline" if evs & DL else "events", evs)
            outs.append((c, fs(1)))
        return outs

    def o_read(I_, fn, n, args, st):
        s0 = st.copy()
        s0.mon["read_stream"] = args[1]
        s0.mon["read_buf"] = args[2]
        ev(I_, "read", fn, n, args, s0)
        if s0.mon.get("stopped"):
            ev(I_, "after-stop", fn, n, "read", s0)
        a = s0.copy()
        a.mon["read"] = "epipe"
        b = s0.copy()
        b.mon["read"] = "neg"
        b.mon["last"] = ("read", "neg")
        c = s0.copy()
        c.mon["read"] = "data"
        return [(a, fs(EPIPE)), (b, frozenset(x for x in I_.neg() if x != EPIPE)), (c, I_.pos())]

    return {"SINK_OUT": sink("out"), "SINK_ERR": sink("err")}, {"reproc_poll": o_poll, "reproc_read": o_read}


def drain_rules(ctx, prog, fname="reproc_drain"):
    F = prog.fn(fname)
    OUT, ERR, DL = prog.const("REPROC_EVENT_OUT"), prog.const("REPROC_EVENT_ERR"), prog.const("REPROC_EVENT_DEADLINE")
    SIN, SOUT, SERR = prog.const("REPROC_STREAM_IN"), prog.const("REPROC_STREAM_OUT"), prog.const("REPROC_STREAM_ERR")
    I = new_interp(prog)
    EXIT, IN = prog.const("REPROC_EVENT_EXIT"), prog.const("REPROC_EVENT_IN")
    extra = {OUT, ERR, OUT | ERR, DL, DL | OUT, DL | ERR, DL | OUT | ERR, 0, 1, 2}
    extra |= {b | x for b in (EXIT, IN) for x in (0, OUT, ERR, OUT | ERR)}
    I.K = sorted(set(I.K) | extra)
    I.Kset = set(I.K)
    I.TOP_INT = frozenset(I.K) | {"NEG", "POS"}
    models, ov = drain_models(prog, I)
    I.models.update(models)
    I.overrides.update(ov)
    st = State()
    cells = {p["name"]: ("v", F.gdid(p["did"])) for p in F.params}
    st.mem[cells["process"]] = fs("PTR")
    st.mem[("f", cells["out"], "function")] = fs(("fn", "SINK_OUT"))
    st.mem[("f", cells["out"], "context")] = fs(("sym", "ctx_out"))
    st.mem[("f", cells["err"], "function")] = fs(("fn", "SINK_ERR"))
    st.mem[("f", cells["err"], "context")] = fs(("sym", "ctx_err"))
    st.mon["nofail"] = True
    res = I.run(F, [st])
    ctx.stats("E-ABS", I.stats)
    ETIMEDOUT = prog.const("REPROC_ETIMEDOUT")
    # ---- G1 / G2 on sink events
    seen = set()
    first_poll_checked = False
    for e in res.events:
        kind, fn, n, info, s, stack = e[:6]
        if kind == "poll":
            key = ("poll", s.mon.get("ncalls", 0))
            if key in seen:
                continue
            seen.add(key)
            ints = info[0]
            ctx.ob("C16.G1p", "%s: %s" % (fname, expr_str(n)[:60]), "no poll happens before both sinks received their opening call",
                   s.mon.get("ncalls", 0) >= 2, {"sink_calls_before": s.mon.get("ncalls", 0)}, nontrivial=True)
        if kind != "sink":
            continue
        which, args = info
        nc = s.mon.get("ncalls")
        stream, buf, size, ctxv = args[0], args[1], args[2], args[3]
        want_ctx = fs(("sym", "ctx_" + which))
        if "read" not in s.mon:
            # opening calls
            key = ("open", which, nc, show(stream), show(size), show(ctxv))
            if key in seen:
                continue
            seen.add(key)
            order_ok = (which == "out" and nc == 1) or (which == "err" and nc == 2)
            ctx.ob("C16.G1", "%s: opening call of the %s sink" % (fname, which), "before reading, the out sink and then the err sink "
                   "are called once with an empty buffer tagged as the input stream and their own context",
                   order_ok and stream == fs(SIN) and size == fs(0) and ctxv == want_ctx,
                   {"order": nc, "stream": show(stream), "size": show(size), "context": show(ctxv)}, nontrivial=True)
        else:
            rs = s.mon.get("read_stream")
            rd = s.mon.get("read")
            key = ("disp", which, show(stream), show(rs), rd, show(size), show(ctxv), buf == s.mon.get("read_buf"))
            if key in seen:
                continue
            seen.add(key)
            want_which = "out" if rs == fs(SOUT) else "err" if rs == fs(SERR) else None
            size_ok = (size == fs(0)) if rd == "epipe" else (size == I.pos()) if rd == "data" else False
            ok = which == want_which and stream == rs and ctxv == want_ctx and buf == s.mon.get("read_buf") and size_ok
            ctx.ob("C16.G2", "%s: dispatch to the %s sink after reading %s (%s)" % (fname, which, show(rs), rd),
                   "every chunk goes to the sink of the stream it was read from, with that stream's tag, that sink's context, the "
                   "buffer that was read into, and the number of bytes read (0 when the stream just closed)", ok,
                   {"sink": which, "stream_arg": show(stream), "read_stream": show(rs), "size": show(size)[:40], "context": show(ctxv)},
                   nontrivial=True)
    # every kind of dispatch must exist: data and end-of-stream (size 0) for each of the two streams
    kinds = {(k[1], k[4]) for k in seen if k and k[0] == "disp"}
    need = {("out", "data"), ("out", "epipe"), ("err", "data"), ("err", "epipe")}
    ctx.ob("C16.G2e", "%s: dispatch kinds" % fname, "each stream's sink is called for data and once with size zero when that stream closes",
           need <= kinds, {"missing": sorted(need - kinds)}, nontrivial=True)
    # stream selection: OUT when the out event bit is set, ERR otherwise
    for e in res.events:
        kind, fn, n, info, s, stack = e[:6]
        if kind == "read":
            last = s.mon.get("last")
            if last and last[0] == "poll" and last[1] == "events":
                evs = last[2]
                ready = set(([SOUT] if evs & OUT else []) + ([SERR] if evs & ERR else []))
                key = ("sel", evs, show(info[1]))
                if key in seen:
                    continue
                seen.add(key)
                ctx.ob("C16.G2s", "%s: stream read for events %d" % (fname, evs), "only a stream whose event was reported is read",
                       len(info[1]) == 1 and next(iter(info[1])) in ready, {"events": evs, "stream": show(info[1])}, nontrivial=True)
            elif last and last[0] == "poll" and last[1] == "deadline":
                ctx.ob("C16.G3d", "%s: read after deadline event" % fname, "nothing is read once the deadline event was reported", False, None)
    # ---- G7: the chunk buffer is private to this call
    # A sink is a user callback: it may itself drain another process, and drains of different handles may run on different
    # threads (the library is built REPROC_MULTITHREADED).  The bytes a sink receives are those reproc_read stored in the
    # buffer only while nothing else writes that storage, i.e. when it belongs to this activation of the drain.
    auto_cells = set()
    shared_cells = {}
    for G, vd in ((G, vd) for G in prog.funcs_all if G.body for vd in G.walk()):
        if vd.get("k") == "VarDecl":
            g = ("v", G.gdid(vd["did"]))
            if vd.get("static") or vd.get("extern") or vd.get("tls"):
                shared_cells[g] = vd["name"]
            else:
                auto_cells.add(g)

    def root_cell(c):
        while isinstance(c, tuple) and c and c[0] in ("i", "f"):
            c = c[1]
        return c
    bufs = {}
    for e in res.events:
        if e[0] == "read":
            for v in e[3][2]:
                bufs.setdefault(v, e[2])
    for v, n in sorted(bufs.items(), key=lambda kv: str(kv[0])):
        root = root_cell(v[1]) if isinstance(v, tuple) and v[0] == "addr" else None
        kind = ("automatic" if root in auto_cells else "static storage (%s)" % shared_cells[root] if root in shared_cells
                else "heap block of this call" if isinstance(root, tuple) and root and root[0] in ("h", "heap") else "not resolved")
        ctx.ob("C16.G7", "%s: storage of the chunk buffer at %s" % (fname, expr_str(n)[:60]),
               "the buffer reproc_read fills and the sink is handed belongs to this activation of the drain (automatic storage, or a "
               "block allocated by this call): a sink may drain another process and drains of different handles may run "
               "concurrently, and storage with static duration would be overwritten under the sink's feet",
               kind == "automatic" or kind.startswith("heap"), {"buffer": show(fs(v))[:60], "storage": kind}, nontrivial=True)
    ctx.floor("C16.G7", 1)
    # after-stop
    bad = [e for e in res.events if e[0] == "after-stop"]
    ctx.ob("C16.G3s", "%s: after a non-zero sink result" % fname, "a non-zero sink result stops the drain at once (no further poll, "
           "read or sink call)", not bad, {"calls": [expr_str(e[2])[:60] for e in bad][:3]}, nontrivial=True)
    # ---- G3 on exits
    seen = set()
    for s, rv in res.exits:
        last = s.mon.get("last")
        key = (last, show(rv))
        if key in seen:
            continue
        seen.add(key)
        site, node = ret_site(F, s)
        if last is None:
            ok, want = False, "?"
        elif last[0] == "poll" and last[1] == "epipe":
            ok, want = rv == fs(0), "0 (both streams closed)"
        elif last[0] == "poll" and last[1] == "neg":
            ok, want = all_neg(rv) and prog.const("REPROC_EPIPE") not in rv, "the poll error"
        elif last[0] == "poll" and last[1] == "deadline":
            ok, want = rv == fs(ETIMEDOUT), "the timeout error"
        elif last[0] == "read":
            ok, want = all_neg(rv), "the read error"
        elif last[0] == "sink":
            ok, want = (rv == I.pos() if last[2] == "pos" else rv == I.neg()), "the sink's non-zero result"
        else:
            ok, want = False, "?"
        ctx.ob("C16.G3", "%s returns after %s" % (fname, "/".join(str(x) for x in last) if last else "?"),
               "the value returned is %s" % want, ok, {"returns": show(rv)[:80]}, nontrivial=True)
    ctx.floor("C16.G3", 3)
    ctx.floor("C16.G1", 2)
    # guards: null sink functions are rejected without any call
    for which in ("out", "err"):
        st2 = st.copy()
        st2.mem[("f", cells[which], "function")] = fs("NULL")
        I2 = new_interp(prog)
        I2.models.update(models)
        I2.overrides.update(ov)
        r2 = I2.run(F, [st2])
        ok = all(rv == fs(prog.const("REPROC_EINVAL")) for s, rv in r2.exits) and not [e for e in r2.events if e[0] in ("sink", "poll", "read")]
        ctx.ob("C16.G0", "%s: null %s sink" % (fname, which), "a sink without a function is rejected with the invalid-argument error "
               "before anything is called", ok, None, nontrivial=True)


def sink_string_rules(ctx, prog, rule="C16.G4"):
    F = prog.fn("sink_string")
    # --- failure atomicity and ownership on all paths
    I = new_interp(prog)
    p = {x["name"]: ("v", F.gdid(x["did"])) for x in F.params}
    entries = []
    cellS = ("g", "user_string")
    for init in ("null", "set"):
        st = State()
        st.mem[p["context"]] = fs(("addr", cellS))
        if init == "null":
            st.mem[cellS] = fs("NULL")
        else:
            t = ("mem", "user", 0)
            st.mem[cellS] = fs(t)
            st.res[t] = ("live",)
        st.mon["init"] = init
        entries.append(st)
    res = I.run(F, entries)
    ctx.stats("E-ABS", I.stats)
    ENOMEM = prog.const("REPROC_ENOMEM")
    for st, rv in res.exits:
        cur = st.mem.get(cellS)
        init = st.mon.get("init")
        if st.mon.get("failed"):
            old_ok = (cur == fs("NULL")) if init == "null" else (cur == fs(("mem", "user", 0)) and st.res.get(("mem", "user", 0)) == ("live",))
            ctx.ob(rule, "sink_string [allocation fails, string was %s]" % init, "when growing fails the error is returned and the "
                   "caller's string pointer still refers to the old, valid block (nothing lost, nothing leaked)",
                   rv == fs(ENOMEM) and old_ok and len([k for k, v in st.res.items() if k[0] == "mem" and v[0] == "live"]) == (1 if init == "set" else 0),
                   {"returns": show(rv), "*string": show(cur), "blocks": {str(k): v for k, v in st.res.items()}}, nontrivial=True)
        else:
            live = [k for k, v in st.res.items() if k[0] == "mem" and v[0] == "live"]
            ctx.ob(rule, "sink_string [ok, string was %s]" % init, "on success the caller's pointer is the one new block and the old one "
                   "is gone", rv == fs(0) and len(live) == 1 and cur == fs(live[0]), {"returns": show(rv), "*string": show(cur)}, nontrivial=True)
    ctx.floor(rule, 4)
    # --- sizes and offsets, evaluated through the code for three (old length, chunk size) pairs: the arithmetic is linear, so
    # what holds for these holds in general unless the code special-cases a value - and every path is followed
    from ..models import new_mem
    for L_, S_ in ((None, 4), (5, 3), (16, 1)):
        log = []

        def m_strlen(I_, fn, n, args, st):
            log.append(("strlen", args[0]))
            return [(st, fs(L_ if L_ is not None else 0))]

        def m_realloc(I_, fn, n, args, st):
            s2, t2 = new_mem(I_, fn, n, st)
            for a_ in args[0]:
                if isinstance(a_, tuple) and a_[0] == "mem":
                    s2.res[a_] = ("moved",)
            log.append(("realloc", args[0], args[1], t2))
            return [(s2, fs(t2))]

        def m_memcpy(I_, fn, n, args, st):
            log.append(("memcpy", args[0], args[1], args[2]))
            return [(st, args[0])]
        I2 = new_interp(prog, extra_models={"strlen": m_strlen, "realloc": m_realloc, "memcpy": m_memcpy})
        I2.widen = False
        Lv = L_ or 0
        I2.K = sorted(set(I2.K) | {Lv, S_, Lv + S_, Lv + S_ + 1})
        I2.Kset = set(I2.K)
        I2.TOP_INT = frozenset(I2.K) | {"NEG", "POS"}
        st = State()
        old = ("mem", "user", 0)
        st.mem[p["context"]] = fs(("addr", cellS))
        if L_ is None:
            st.mem[cellS] = fs("NULL")
        else:
            st.mem[cellS] = fs(old)
            st.res[old] = ("live",)
        st.mem[p["size"]] = fs(S_)
        st.mem[p["buffer"]] = fs(("str", "<chunk>"))
        res2 = I2.run(F, [st])
        re_ = [x for x in log if x[0] == "realloc"]
        mc_ = [x for x in log if x[0] == "memcpy"]
        sl_ = [x for x in log if x[0] == "strlen"]
        stores = [(e[3][0], e[3][1]) for e in res2.events if e[0] == "store-heap"]
        case = "old string %s, chunk of %d bytes" % ("NULL" if L_ is None else "of length %d" % L_, S_)
        want_ptr = fs("NULL") if L_ is None else fs(old)
        ok_len = all(x[1] == fs(old) for x in sl_) and (L_ is None or len(sl_) >= 1)
        ok_re = len(re_) == 1 and re_[0][1] == want_ptr and len(re_[0][2]) == 1 and is_int_(one_(re_[0][2])) and one_(re_[0][2]) >= Lv + S_ + 1
        newt = re_[0][3] if re_ else None
        ok_mc = len(mc_) == 1 and newt is not None and mc_[0][1] in (fs(("addr", ("i", ("heap", newt), Lv))),) + ((fs(newt),) if Lv == 0 else ()) \
            and mc_[0][2] == fs(("str", "<chunk>")) and mc_[0][3] == fs(S_)
        term = [c for c, v in stores if newt is not None and c == ("i", ("heap", newt), Lv + S_) and v == fs(0)]
        beyond = [c for c, v in stores if newt is not None and c[0] == "i" and c[1] == ("heap", newt) and (not is_int_(c[2]) or c[2] > Lv + S_)]
        ctx.ob(rule + "s", "sink_string [%s]" % case, "the old length is strlen() of the caller's current string (0 for none), the block is "
               "re-sized to at least length + chunk + 1, exactly the chunk is copied from the buffer to offset = old length, and the NUL "
               "goes to offset + chunk - nothing is written beyond", ok_len and ok_re and ok_mc and len(term) == 1 and not beyond,
               {"strlen_of": [show(x[1]) for x in sl_], "realloc": [(show(x[1]), show(x[2])) for x in re_],
                "memcpy": [(show(x[1])[:70], show(x[2]), show(x[3])) for x in mc_], "stores": [(str(c), show(v)) for c, v in stores][:4]},
               nontrivial=True)


def is_int_(x):
    return isinstance(x, int) and not isinstance(x, bool)


def one_(v):
    return next(iter(v)) if v is not None and len(v) == 1 else None


def run_ex_rules(ctx, prog, rule="C16.G5"):
    F = prog.fn("reproc_run_ex")
    tok = ("mem", "reproc_new", 0)

    def o_new(I, fn, n, args, st):
        s = st.copy()
        s.res[tok] = ("live",)
        s.mon["seq"] = s.mon.get("seq", ()) + ("new",)
        f = failed(st, fn, n).copy()
        f.mon["seq"] = f.mon.get("seq", ()) + (("new", "neg"),)
        f.mon["first_neg"] = "new"
        return [(f, fs("NULL")), (s, fs(tok))]

    def step(name, outcomes):
        def m(I, fn, n, args, st):
            outs = []
            for tag, val in outcomes(I):
                s = st.copy()
                s.mon["seq"] = s.mon.get("seq", ()) + ((name, tag),)
                s.mon["arg0"] = s.mon.get("arg0", ()) + (args[0],)
                if tag == "neg" and "first_neg" not in s.mon:
                    s.mon["first_neg"] = name
                outs.append((s, val))
            return outs
        return m

    def o_destroy(I, fn, n, args, st):
        s = st.copy()
        s.mon["seq"] = s.mon.get("seq", ()) + ("destroy",)
        for a in args[0]:
            if isinstance(a, tuple) and a[0] == "mem":
                if s.res.get(a) == ("freed",):
                    ev(I, "double-free", fn, n, a, st)
                s.res[a] = ("freed",)
        return [(s, fs("NULL"))]
    ov = {
        "reproc_new": o_new,
        "reproc_start": step("start", lambda I: [("neg", I.neg()), ("ok", I.pos())]),
        "reproc_drain": step("drain", lambda I: [("neg", I.neg()), ("ok", fs(0)), ("ok", I.pos())]),
        "reproc_stop": step("stop", lambda I: [("neg", I.neg()), ("ok", I.nonneg())]),
        "reproc_destroy": o_destroy,
    }
    I = new_interp(prog, overrides=ov)
    st = State()
    for p in F.params:
        if p["name"] == "options":
            st.mem[("f", ("v", F.gdid(p["did"])), "fork")] = fs(0)
    res = I.run(F, [st])
    ctx.stats("E-ABS", I.stats)
    seen = set()
    for s, rv in res.exits:
        seq = s.mon.get("seq", ())
        key = (seq, show(rv))
        if key in seen:
            continue
        seen.add(key)
        names = [x if isinstance(x, str) else x[0] for x in seq]
        created = "new" in [x for x in seq if isinstance(x, str)]
        mids = [x for x in names if x not in ("new", "destroy")]
        order_ok = names[:1] == ["new"] and mids == ["start", "drain", "stop"][:len(mids)] and names.count("destroy") <= 1 and \
            ((names[-1:] == ["destroy"]) if created else True)
        first_neg = s.mon.get("first_neg")
        stops_at_error = all(not (isinstance(x, tuple) and x[1] == "neg") or i == len(seq) - 2 for i, x in enumerate(seq))
        handle_ok = all(a == fs(tok) for a in s.mon.get("arg0", ()))
        if first_neg == "new":
            stops_at_error = len(mids) == 0
        freed = s.res.get(tok, ("freed",)) == ("freed",)
        stops_at_error = stops_at_error if first_neg == "new" else all(
            not (isinstance(x, tuple) and x[1] == "neg") or [y for y in seq[i + 1:] if y != "destroy"] == [] for i, x in enumerate(seq))
        if first_neg:
            ret_ok = all_neg(rv)
        elif "new" in names and len(names) == 2 and s.mon.get("failed"):
            ret_ok = rv == fs(prog.const("REPROC_ENOMEM"))
        else:
            ret_ok = rv == I.nonneg()
        ctx.ob(rule, "reproc_run_ex [%s]" % " ".join(n if isinstance(n, str) else "%s:%s" % n for n in seq),
               "run does new, start, drain, stop in that order on the same handle, stops at the first negative result and returns it "
               "(otherwise the result of stop), and destroys the handle exactly once on every path",
               order_ok and stops_at_error and handle_ok and freed and ret_ok,
               {"returns": show(rv)[:60], "order_ok": order_ok, "stops_at_error": stops_at_error, "destroyed": freed}, nontrivial=True)
    ctx.floor(rule, 5)
    bad = [e for e in res.events if e[0] == "double-free"]
    ctx.ob(rule, "reproc_run_ex: destroy once", "the handle is not destroyed twice", not bad, None)
    # fork is refused
    st2 = State()
    for p in F.params:
        if p["name"] == "options":
            st2.mem[("f", ("v", F.gdid(p["did"])), "fork")] = fs(1)
    I2 = new_interp(prog, overrides=ov)
    r2 = I2.run(F, [st2])
    ctx.ob(rule + "f", "reproc_run_ex [fork option]", "run refuses the fork option before doing anything",
           all(rv == fs(prog.const("REPROC_EINVAL")) and not s.mon.get("seq") for s, rv in r2.exits), None, nontrivial=True)


def run_rules(ctx, prog):
    """reproc_run: parent redirect only when no discard/file/path; null sinks"""
    F = prog.fn("reproc_run")
    seen_args = []

    def o_run_ex(I, fn, n, args, st):
        ev(I, "run_ex", fn, n, args, st)
        return [(st, I.TOP_INT)]
    I = new_interp(prog, overrides={"reproc_run_ex": o_run_ex})
    opt = [("v", F.gdid(p["did"])) for p in F.params if p["name"] == "options"][0]
    red = ("f", opt, "redirect")
    entries = []
    import itertools
    for d, f, p in itertools.product((0, 1), repeat=3):
        st = State()
        st.mem[("f", red, "discard")] = fs(d)
        st.mem[("f", red, "file")] = fs("PTR") if f else fs("NULL")
        st.mem[("f", red, "path")] = fs("PTR") if p else fs("NULL")
        st.mem[("f", red, "parent")] = fs(0)
        st.mon["case"] = (d, f, p)
        entries.append(st)
    res = I.run(F, entries)
    for e in res.events:
        if e[0] != "run_ex":
            continue
        st = e[4]
        d, f, p = st.mon["case"]
        cells = e[3][1][1] if isinstance(e[3][1], tuple) else []
        par = None
        for c in cells:
            par = st.mem.get(("f", ("f", c, "redirect"), "parent"))
        want = fs(1) if not (d or f or p) else fs(0)
        sink_null = all(isinstance(a, tuple) and a[0] == "agg" and all(c == ("g", "REPROC_SINK_NULL") for c in a[1]) for a in e[3][2:4])
        ctx.ob("C16.G5r", "reproc_run [discard=%d file=%d path=%d]" % (d, f, p), "run redirects to the parent exactly when none of "
               "discard/file/path is set, and drains into the null sinks", par == want and sink_null,
               {"parent": show(par), "null_sinks": sink_null}, nontrivial=True)
    ctx.floor("C16.G5r", 8)


def check(ctx):
    prog = ctx.prog("posix-mt")
    drain_rules(ctx, prog)
    sink_string_rules(ctx, prog)
    run_ex_rules(ctx, prog)
    run_rules(ctx, prog)
    from . import c08
    c08.expiry_contract(ctx, prog)     # "an expired deadline yields the timeout error" needs the deadline to be reported as expired
    from . import c01
    c01.wait_rules(ctx, prog)          # "run returns the child's exit status": a status is only ever the one waitpid delivered (C01.R3)
    from . import c09
    c09.poll_rules(ctx, prog)          # ... and poll to report it at once, as the only event, whatever else is pending (C09.V3d)
    from .. import cxxrules
    cxxrules.c16_mirror(ctx)
