"""C02 - stream fidelity: bytes arrive once, in order; end-of-stream exactly at the end (narrow)."""
from ..facts import AnalysisBroken, strip, expr_str
from ..absint import State
from ..models import fs, ev
from ..rulelib import *
from .. import apimodel as A
from .. import apirules as R
from .. import startpath as SP

EXPLANATION = (
    "Static analysis of the places where the library could lose, duplicate, reorder or mis-terminate stream data (it cannot decide "
    "what the kernel pipe does). By abstract interpretation on all paths: pipe_read maps exactly read()==0 to the closed-pipe "
    "error, failures to -errno, and a positive count through unchanged; reproc_read / reproc_write, from every handle state, "
    "issue at most one read()/write() per call, on the handle's own descriptor, with exactly the caller's buffer and size, return "
    "that call's result, and close + invalidate the pipe field exactly when the result is the closed-pipe error (sticky), leaving "
    "it untouched on any other error; start-up input is written from data+written for size-written until written >= size (loop "
    "exit fact), any write error fails start, then stdin is closed and invalidated; after a successful start the parent holds no "
    "child-side end (so end-of-file can propagate); reproc_close closes and invalidates the chosen stream. Not decided: that "
    "bytes arrive once and in order through the kernel pipe under every interleaving. Also: the parent's end of a stream is released exactly once even when close() reports an error (S2d); only the closed-pipe path of read/write, reproc_close and reproc_destroy ever close a stream end - wait, stop, terminate, kill and poll never do, so output buffered when the child exits stays readable (S6); no buffer between read and consumer lives in shared static storage (C20.H1).")
ASSUMPTIONS = [
    "clang 14 parser/CFG and the fact extractor are correct", "read()/write() transfer bytes between the given buffer and the pipe in order; read()==0 means end of file",
    "the handle invariant (C14) holds at entry of every call",
]


def pipe_read_rule(ctx, prog):
    F = prog.fn("pipe_read")
    EPIPE = prog.const("REPROC_EPIPE")
    I = new_interp(prog)
    p = {x["name"]: ("v", F.gdid(x["did"])) for x in F.params}
    st = State()
    t = ("fd", "pipe", 0, 0)
    st.res[t] = ("open", True, "pipe-read")
    st.mem[p["pipe"]] = fs(t)
    st.mem[p["buffer"]] = fs(("str", "<buffer>"))
    st.mem[p["size"]] = fs(("sym", "size"))
    res = I.run(F, [st])
    ctx.stats("E-ABS", I.stats)
    seen = set()
    for s, rv in res.exits:
        lr = s.mon.get("lastread")
        if (lr, show(rv)) in seen:
            continue
        seen.add((lr, show(rv)))
        if lr == "eof":
            ok, what = rv == fs(EPIPE), "read() == 0 is reported as the closed-pipe error"
        elif lr == "data":
            ok, what = rv == I.pos(), "a positive byte count is returned unchanged"
        else:
            ok, what = all_neg(rv) and rv != fs(EPIPE), "a failing read() is reported as -errno, not as the closed-pipe error"
        ctx.ob("C02.S1", "pipe_read [read: %s]" % lr, what, ok, {"returns": show(rv)[:60]}, nontrivial=True)
    ctx.floor("C02.S1", 3)
    rd = [e for e in res.events if e[0] == "read"]
    ok = all(e[3][0] == fs(t) and e[3][1] == fs(("str", "<buffer>")) and e[3][2] == fs(("sym", "size")) for e in rd) and rd
    ctx.ob("C02.S3", "pipe_read -> read", "descriptor, buffer and size reach read() unchanged", ok, None, nontrivial=True)
    F = prog.fn("pipe_write")
    p = {x["name"]: ("v", F.gdid(x["did"])) for x in F.params}
    st = State()
    st.res[t] = ("open", True, "pipe-write")
    st.mem[p["pipe"]] = fs(t)
    st.mem[p["buffer"]] = fs(("str", "<buffer>"))
    st.mem[p["size"]] = fs(("sym", "size"))
    res = I.run(F, [st])
    wr = [e for e in res.events if e[0] == "write"]
    ok = all(e[3][0] == fs(t) and e[3][1] == fs(("str", "<buffer>")) and e[3][2] == fs(("sym", "size")) for e in wr) and wr
    ctx.ob("C02.S3", "pipe_write -> write", "descriptor, buffer and size reach write() unchanged", ok, None, nontrivial=True)
    for s, rv in res.exits:
        okr = rv == I.nonneg() if not s.mon.get("failed") else all_neg(rv)
        ctx.ob("C02.S1w", "pipe_write [%s]" % ("write failed" if s.mon.get("failed") else "ok"), "the count accepted by write() is returned "
               "unchanged, a failure as -errno", okr, {"returns": show(rv)[:60]}, nontrivial=True)


def count_hook(kind):
    def hook(I, fn, n, name, args, st):
        if name == kind:
            s = st.copy()
            s.mon["n_" + kind] = min(2, s.mon.get("n_" + kind, 0) + 1)      # 2 = "more than one"
            return s
        return None
    return hook


def api_rules(ctx, prog):
    EPIPE = prog.const("REPROC_EPIPE")
    inv = fs(prog.const("PIPE_INVALID"))
    for f, op, streams in (("reproc_read", "read", ("out", "err")), ("reproc_write", "write", ("in",))):
        F = prog.fn(f)
        I = new_interp(prog)
        I.hooks_call.append(count_hook(op))
        p = {x["name"]: ("v", F.gdid(x["did"])) for x in F.params}
        entries = []
        for st in A.entry_states(prog, I, F, ("RUN", "EXITED", "NS")):
            st = st.copy()
            st.mon.pop("nofail", None)
            st.mem[p["buffer"]] = fs(("str", "<buffer>"))
            st.mem[p["size"]] = fs(("sym", "size"))
            if f == "reproc_read":
                for sname in ("OUT", "ERR"):
                    s2 = st.copy()
                    s2.mem[p["stream"]] = fs(prog.const("REPROC_STREAM_" + sname))
                    s2.mon["stream"] = sname.lower()
                    entries.append(s2)
            else:
                st.mon["stream"] = "in"
                entries.append(st)
        res = I.run(F, entries)
        ctx.stats("E-ABS", I.stats)
        seen = set()
        for st, rv in res.exits:
            sname = st.mon["stream"]
            lab = st.mon["shape"]
            entry_valid = {"in": 0, "out": 1, "err": 2}[sname]
            was_valid = "[" in lab and lab.split("[")[1][entry_valid] != "-"
            fld = st.mem.get(A.fcell("pipe", sname))
            tok = A.tok(sname)
            n = st.mon.get("n_" + op, 0)
            key = (sname, was_valid, show(rv)[:30], show(fld), n)
            if key in seen:
                continue
            seen.add(key)
            site = "%s [%s stream %s]" % (f, sname, "open" if was_valid else "closed/absent")
            if not was_valid:
                ctx.ob("C02.S2", site, "on a closed or non-piped stream the closed-pipe error is returned without any system call",
                       rv == fs(EPIPE) and n == 0 and fld == inv, {"returns": show(rv), "calls": n}, nontrivial=True)
                continue
            if rv == fs(EPIPE):
                ok = fld == inv and st.res.get(tok, ("closed",))[0] == "closed" and n == 1
                ctx.ob("C02.S2", site + " -> closed-pipe error", "when the closed-pipe error is returned the parent's end has been closed and "
                       "the field invalidated, so the error is returned from then on", ok, {"field": show(fld), "descriptor": st.res.get(tok)}, nontrivial=True)
            else:
                ok = fld == fs(tok) and st.res.get(tok, ("?",))[0] == "open" and n <= 1
                ctx.ob("C02.S2n", site + " -> %s" % ("data/count" if may_nonneg(rv) else "other error"), "any other result leaves the stream open "
                       "and the field untouched (an interrupted or would-block call loses nothing), after at most one %s()" % op, ok,
                       {"returns": show(rv)[:50], "field": show(fld), "calls": n}, nontrivial=True)
        # the one OS call gets the handle's descriptor and the caller's buffer and size
        for e in res.events:
            if e[0] != op:
                continue
            st = e[4]
            sname = st.mon["stream"]
            args = e[3]
            key = ("args", sname, show(args[0]), show(args[1]), show(args[2]))
            if key in seen:
                continue
            seen.add(key)
            ctx.ob("C02.S3", "%s -> %s() [%s]" % (f, op, sname), "the %s() goes to the descriptor of the requested stream with exactly the "
                   "caller's buffer and size" % op, args[0] == fs(A.tok(sname)) and args[1] == fs(("str", "<buffer>")) and args[2] == fs(("sym", "size")),
                   {"fd": show(args[0]), "buffer": show(args[1]), "size": show(args[2])}, nontrivial=True)
        bad = sorted({(e[0], site_of(e[1], e[2])) for e in res.events if e[0] in ("double-close", "close-raw", "close-foreign", "close-ambiguous")})
        ctx.ob("C02.S2d", f, "the parent's end is released exactly once - also when close() itself reports an error, after which the "
               "number may already belong to another handle's pipe whose data would be lost", not bad, {"events": bad[:4]}, nontrivial=True)
    ctx.floor("C02.S2", 4)
    ctx.floor("C02.S3", 3)
    # close: each stream value closes and invalidates its own field
    F = prog.fn("reproc_close")
    I = new_interp(prog)
    p = {x["name"]: ("v", F.gdid(x["did"])) for x in F.params}
    entries = []
    for st in A.entry_states(prog, I, F, ("RUN",), combos="min")[-1:]:
        for sname in ("IN", "OUT", "ERR"):
            s2 = st.copy()
            s2.mem[p["stream"]] = fs(prog.const("REPROC_STREAM_" + sname))
            s2.mon["stream"] = sname.lower()
            entries.append(s2)
    res = I.run(F, entries)
    bad = sorted({(e[0], site_of(e[1], e[2])) for e in res.events if e[0] in ("double-close", "close-raw", "close-foreign", "close-ambiguous")})
    ctx.ob("C02.S2d", "reproc_close", "the parent's end is released exactly once - also when close() itself reports an error, after which "
           "the number may already belong to another handle's pipe whose data would be lost", not bad, {"events": bad[:4]}, nontrivial=True)
    for st, rv in res.exits:
        sname = st.mon["stream"]
        others = [x for x in ("in", "out", "err") if x != sname]
        ok = rv == fs(0) and st.mem.get(A.fcell("pipe", sname)) == inv and st.res.get(A.tok(sname), ("closed",))[0] == "closed" \
            and all(st.mem.get(A.fcell("pipe", o)) == fs(A.tok(o)) and st.res.get(A.tok(o))[0] == "open" for o in others)
        ctx.ob("C02.S5c", "reproc_close [%s]" % sname, "closing a stream closes and invalidates that stream's pipe only", ok,
               {"returns": show(rv)}, nontrivial=True)
    ctx.floor("C02.S5c", 3)


def cursor_rule(ctx, prog, F, rule):
    # the write cursor: pointer <data> + W, length <size> - W for one variable W, advanced only by the write's result
    calls = [n for n in F.calls("pipe_write")]
    ok = False
    detail = {}
    if len(calls) == 1:
        ptr, ln = strip(calls[0]["c"][2]), strip(calls[0]["c"][3])
        dname = [x for x in F.params if x["name"] in ("data",)] and "data"
        pnames = None
        if ptr["k"] == "BinaryOperator" and ptr["op"] == "+" and ln["k"] == "BinaryOperator" and ln["op"] == "-":
            a0, w0 = expr_str(strip(ptr["c"][0])), expr_str(strip(ptr["c"][1]))
            s0, w1 = expr_str(strip(ln["c"][0])), expr_str(strip(ln["c"][1]))
            # the variable that receives the write's result
            res_var = None
            par = F.nodes.get(F.parent.get(calls[0]["id"]))
            while par is not None and par["k"] in ("ImplicitCastExpr", "ParenExpr", "CStyleCastExpr"):
                par = F.nodes.get(F.parent.get(par["id"]))
            if par is not None and par["k"] == "BinaryOperator" and par["op"] == "=":
                res_var = expr_str(strip(par["c"][0]))
            elif par is not None and par["k"] == "VarDecl":
                res_var = par["name"]
            upd = [x for x in F.walk() if (x["k"] == "CompoundAssignOperator" or (x["k"] == "BinaryOperator" and x["op"] == "=") or
                                           (x["k"] == "UnaryOperator" and x["op"] in ("++", "--"))) and expr_str(strip(x["c"][0])) == w0]
            wloc = strip(ptr["c"][1])
            ok = (a0 != s0 and w0 == w1 and wloc["k"] == "DeclRefExpr" and wloc.get("dk") == "local" and w0 not in a0 and w0 not in s0
                  and len(upd) == 1
                  and upd[0]["k"] == "CompoundAssignOperator" and upd[0]["op"] == "+=" and expr_str(strip(upd[0]["c"][1])) == res_var)
            detail = {"write": expr_str(calls[0]), "cursor": w0, "updates": [expr_str(u) for u in upd], "result_var": res_var}
    ctx.ob(rule + "c", "setup_input: write cursor", "each write starts at data + W for size - W bytes, for one cursor variable W that "
           "advances only by what the write accepted", ok, detail)


def find_input_writer(prog):
    """the function whose loop writes the start-up input (setup_input; reproc_start if it has been inlined there)"""
    cands = []
    in_file = [F for F in prog.funcs_all if F.file.endswith("reproc.c") and F.name != "reproc_write"]
    reach = {F.name for F in in_file if [n for n in F.calls("pipe_write")]}
    changed = True
    while changed:          # functions of reproc.c from which the write is reached through helpers
        changed = False
        for F in in_file:
            if F.name not in reach and any(x["k"] == "CallExpr" and x.get("callee") in reach for x in F.walk()):
                reach.add(F.name)
                changed = True
    # the writer is the outermost such function below reproc_start (or reproc_start itself when everything is inlined there)
    R = prog.fn("reproc_start")
    direct = [F for F in in_file if F.name in reach and F.name != "reproc_start" and [n for n in R.calls(F.name)]]
    if direct:
        cands = direct
    elif "reproc_start" in reach:
        cands = [R]
    if len(cands) != 1:
        raise AnalysisBroken("start-up input: expected one function besides reproc_write that calls pipe_write in reproc.c, found %s"
                             % [f.name for f in cands])
    return cands[0]


def input_rules_in_context(ctx, prog, F, rule):
    """the writer has been inlined into reproc_start: judge it on the all-paths run of reproc_start itself"""
    res, Fr, I, obj = SP.reproc_start_run(ctx, prog)
    n = 0
    seen = set()
    for st, rv in res.exits:
        if rv != fs(1) or st.mon.get("input") != "set":
            continue
        rel = st.mon.get("rel", frozenset())
        complete = any(f[0] == "<=" and f[1][0] == "f" and f[1][2] == "size" for f in rel)
        if complete in seen:
            continue
        seen.add(complete)
        n += 1
        ctx.ob(rule, "%s [input written]" % F.name, "success with start-up input is reached only through the loop condition (written >= "
               "size: the input was delivered completely)", complete, {"loop_exit_fact": [str(f) for f in rel][:3]}, nontrivial=True)
    if n < 1:
        raise AnalysisBroken("start-up input: no successful start with input found")
    for e in res.events:
        if e[0] == "write" and e[4].mon.get("input") == "set" and e[4].mon.get("proc") is None:
            fdv = e[3][0]
            t = next(iter(fdv)) if len(fdv) == 1 else None
            ctx.ob(rule + "n", "%s: write mode" % F.name, "start-up input is written with the pipe in nonblocking mode (so start cannot block)",
                   e[4].res.get(("nb", t)) == fs(1), {"mode": show(e[4].res.get(("nb", t)))}, nontrivial=True)
            break
    cursor_rule(ctx, prog, F, rule)


def loop_function(prog):
    """the function of reproc.c (other than reproc_write) that calls pipe_write itself"""
    fs_ = [F for F in prog.funcs_all if F.file.endswith("reproc.c") and F.name != "reproc_write" and [n for n in F.calls("pipe_write")]]
    if len(fs_) != 1:
        raise AnalysisBroken("start-up input: expected one function besides reproc_write that calls pipe_write, found %s" % [f.name for f in fs_])
    return fs_[0]


def loop_complete_rule(ctx, prog, W, rule):
    """the write loop lives in a helper W(.., size): every non-negative return of W is reached through the loop condition
    (written >= size), judged on W alone"""
    pw = {x["name"]: ("v", W.gdid(x["did"])) for x in W.params}
    if "size" not in pw:
        raise AnalysisBroken("start-up input: the helper %s that writes the input has no `size` parameter" % W.name)
    I = new_interp(prog)
    st = State()
    t = ("fd", "stdin", 0, 0)
    st.res[t] = ("open", True, "pipe-write")
    PC = ("g", "stdin_pipe_field")
    st.mem[PC] = fs(t)
    for x in W.params:
        if x["name"] == "pipe":
            st.mem[pw["pipe"]] = fs(("addr", PC)) if "*" in x["t"] else fs(t)
        elif x["name"] == "data":
            st.mem[pw["data"]] = fs(("str", "<data>"))
    res = I.run(W, [st])
    n = 0
    for s, rv in res.exits:
        if all_neg(rv):
            continue
        n += 1
        rel = s.mon.get("rel", frozenset())
        complete = any(f[0] == "<=" and f[1] == pw["size"] for f in rel)
        ctx.ob(rule, "%s [returns %s]" % (W.name, show(rv)[:20]), "the helper that writes the start-up input reports success only through its loop "
               "condition (written >= size: the input was delivered completely)", complete, {"loop_exit_fact": [str(f) for f in rel][:3]},
               nontrivial=True)
    if n < 1:
        raise AnalysisBroken("%s: no successful exit" % W.name)


def setup_input_rules(ctx, prog, rule="C02.S4"):
    F = find_input_writer(prog)
    W = loop_function(prog)
    pn = {x["name"] for x in F.params}
    if not {"pipe", "data", "size"} <= pn:
        return input_rules_in_context(ctx, prog, F, rule)
    I = new_interp(prog)
    I.overrides.pop("pipe_nonblocking", None)
    from ..models import OVERRIDES
    I.overrides["pipe_nonblocking"] = OVERRIDES["pipe_nonblocking"]
    p = {x["name"]: ("v", F.gdid(x["did"])) for x in F.params}
    PC = ("g", "stdin_pipe_field")
    t = ("fd", "stdin", 0, 0)
    st = State()
    st.res[t] = ("open", True, "pipe-write")
    byptr = "*" in [x for x in F.params if x["name"] == "pipe"][0]["t"]
    st.mem[p["pipe"]] = fs(("addr", PC)) if byptr else fs(t)
    st.mem[PC] = fs(t)
    st.mem[p["data"]] = fs(("str", "<data>"))
    st2 = st.copy()
    st2.mem[p["data"]] = fs("NULL")
    st2.mem[p["size"]] = fs(0)
    res = I.run(F, [st, st2])
    ctx.stats("E-ABS", I.stats)
    size_c, inv = p["size"], fs(prog.const("PIPE_INVALID"))
    n = 0
    for s, rv in res.exits:
        nodata = s.mem.get(p["data"]) == fs("NULL") or s.mon.get("nodata")
        if s.mem.get(PC) == fs(t) and rv == fs(0) and not s.mon.get("failed") and not any(e for e in res.events if e[0] == "write" and False):
            pass
        if all_neg(rv):
            continue
        wrote = [e for e in res.events if e[0] == "write"]
        if s.mem.get(p["data"], fs("NULL")) == fs("NULL") and not [e for e in res.events if e[0] == "write" and e[4].mem.get(p["data"]) == fs("NULL")]:
            if s.mem.get(PC) == fs(t) and s.res.get(t)[0] == "open" and s.mon.get("n_w") is None and not s.mon.get("rel"):
                # the data == NULL case: nothing touched
                ctx.ob(rule, "setup_input [no input]", "without start-up input the stdin pipe is left alone", rv == fs(0), None, nontrivial=True)
                continue
        n += 1
        rel = s.mon.get("rel", frozenset())
        # size <= written, for the writer's own `size` or the `size` parameter of a helper it hands the loop to
        complete = any(f[0] == "<=" and f[1] == size_c for f in rel) or W is not F      # helper: judged by loop_complete_rule
        closed = s.res.get(t, ("closed",))[0] == "closed"
        ctx.ob(rule, "setup_input [input written]", "success is reached only through the loop condition (written >= size: the input was "
               "delivered completely), and the parent's stdin end is then closed so the child sees end-of-file",
               rv == fs(0) and complete and closed, {"loop_exit_fact": [str(f) for f in rel][:3], "stdin_closed": closed}, nontrivial=True)
    if n < 1:
        raise AnalysisBroken("setup_input: no successful exit with input")
    for s, rv in res.exits:
        if s.mon.get("failed"):
            ctx.ob(rule + "f", "setup_input [%s fails]" % s.mon["failed"].split("@")[0], "a failing (or would-block) write, or failing to set "
                   "the mode, makes start-up input fail with a negative error (start then undoes everything)", all_neg(rv), {"returns": show(rv)[:40]}, nontrivial=True)
    if W is not F:
        loop_complete_rule(ctx, prog, W, rule)
    cursor_rule(ctx, prog, W, rule)
    # nonblocking mode set (successfully) before any write
    for e in res.events:
        if e[0] == "write":
            stw = e[4]
            ctx.ob(rule + "n", "setup_input: write mode", "start-up input is written with the pipe in nonblocking mode (so start cannot block)",
                   stw.res.get(("nb", t)) == fs(1), {"mode": show(stw.res.get(("nb", t)))}, nontrivial=True)
            break


def start_rules(ctx, prog):
    res, F, I, obj = SP.reproc_start_run(ctx, prog)
    bad = 0
    n = 0
    for st, rv in res.exits:
        if rv != fs(1) or st.mon.get("proc") == "child":
            continue
        n += 1
        refd = set()
        for c, v in st.mem.items():
            if cell_base(c) == obj:
                refd |= {a for a in v or () if isinstance(a, tuple)}
        if [k for k in SP.open_fds(st) if k not in refd]:
            bad += 1
    seen = set()
    for st, rv in res.exits:
        if rv == fs(1) and st.mon.get("input") == "set":
            v = st.mem.get(("f", ("f", obj, "pipe"), "in"))
            if show(v) in seen:
                continue
            seen.add(show(v))
            ctx.ob("C02.S5i", "reproc_start [success, start-up input given]", "after start-up input has been written the handle's stdin "
                   "field is the invalid marker (the pipe was closed: the child sees end-of-file, later writes get the closed-pipe error)",
                   v == fs(prog.const("PIPE_INVALID")), {"pipe.in": show(v)}, nontrivial=True)
    ctx.floor("C02.S5i", 1)
    ctx.ob("C02.S5", "reproc_start [success]", "after a successful start the parent holds none of the child-side ends (every pipe end it "
           "still has open is a parent end stored in the handle), so end-of-file can propagate in both directions", bad == 0 and n > 0,
           {"success_paths": n, "with_stray_descriptor": bad}, nontrivial=True)


def who_closes_streams(ctx, prog):
    """S6: the parent's end of a stream is closed only by the read/write that saw its end (closed-pipe path), by reproc_close and
    by reproc_destroy (and by start when it fails).  No other call - wait, stop, terminate, kill, poll - releases a stream end:
    output still buffered in the pipe when the child exits must stay readable"""
    from .. import apirules as R
    from .. import apimodel as A
    toks = {A.tok(x): x for x in ("in", "out", "err")}
    for f in ("reproc_wait", "reproc_stop", "reproc_terminate", "reproc_kill", "reproc_poll"):
        res, F, I = R.run_poll(ctx, prog) if f == "reproc_poll" else R.run(ctx, prog, f)
        closed = sorted({"%s (%s)" % (toks[a], site_of(e[1], e[2])) for e in res.events if e[0] == "close" for a in e[3] if a in toks})
        ctx.ob("C02.S6", f, "this call never closes the parent's end of stdin, stdout or stderr (data the child wrote before it exited "
               "stays readable until the closed-stream condition is met by a read, or the parent closes the stream itself)", not closed,
               {"closes": closed[:4]}, nontrivial=True)


def check(ctx):
    prog = ctx.prog("posix-mt")
    who_closes_streams(ctx, prog)
    pipe_read_rule(ctx, prog)
    api_rules(ctx, prog)
    setup_input_rules(ctx, prog)
    start_rules(ctx, prog)
    # end-of-file can only propagate if no other child keeps a copy of the pipe ends: every child closes all foreign descriptors (C11.X2)
    from . import c11, c16
    c11.closeall_rules(ctx, prog)
    # the convenience reader delivers every chunk it reads and reports each stream's end (C16.G1-G3)
    c16.drain_rules(ctx, prog)
    ctx.floor("C02.S3", 5)
    # a poll/read loop takes poll's "no stream left" error as the end of all streams: poll may report it only when no requested
    # stream of any source is still open, and waits with the caller's timeout otherwise (C09.V1-V5)
    from . import c09
    c09.poll_rules(ctx, prog)
    # what is read is handed on from storage private to the call: no buffer shared between handles / threads (C20.H1)
    from . import c20
    c20.globals_rule(ctx, prog)
