"""C12 - start leaves the caller untouched and gives the child a clean signal state."""
from ..facts import AnalysisBroken, expr_str, strip, CALL_KINDS
from ..absint import atom_interval, INF, walk_nodes
from ..rulelib import *

EXPLANATION = (
    "Static analysis (abstract interpretation over clang CFGs, all paths of process_fork with every libc call "
    "both failing and succeeding; call-graph who-may-call scans over the whole library). Decides: the thread "
    "signal mask at every parent-side return of the forking function equals the mask at entry and is empty at "
    "every child-side return; process-wide effects (chdir, sigaction, environ, exec, dup2, _exit) occur only on "
    "the child side of fork; the child's disposition reset covers signals 1..31 on every path; the parent's "
    "environment is only read. Not decided: nothing value-dependent is needed for this property. M4g: what getenv returns is never written through or handed to a writing libc argument; M2x: the library never calls exit()/quick_exit().")
ASSUMPTIONS = [
    "clang 14 parser/CFG and the fact extractor are correct",
    "pthread_sigmask/sigprocmask(SIG_SETMASK, new, old) install *new and store the previous mask in *old; the restoring call itself does not fail (excluded by the property)",
    "fork() returns <0, 0 (child) or >0 (parent)",
]

MASK_PRIMS = ("pthread_sigmask", "sigprocmask", "sigsuspend", "pthread_sigqueue")
PROCESS_WIDE = ("chdir", "fchdir", "sigaction", "signal", "sigset", "setenv", "putenv", "unsetenv", "clearenv",
                "execvp", "execv", "execve", "execvpe", "execl", "execlp", "execle", "fexecve", "dup2", "dup3",
                "_exit", "_Exit", "exit", "setsid", "setpgid", "umask", "setuid", "setgid", "chroot", "setrlimit",
                "nice", "close_range", "closefrom")


def mask_sites(prog):
    wrappers = set()
    for p in MASK_PRIMS:
        for F, n in callsites(prog, p):
            wrappers.add(F.name)
    users = set()
    for w in wrappers:
        for F, n in callsites(prog, w):
            users.add(F.name)
    return wrappers, users


def check_m1(ctx, config):
    prog = ctx.prog(config)
    wrappers, users = mask_sites(prog)
    # M1w: every call of a mask primitive either installs a mask outright (SIG_SETMASK - judged on the paths below) or records the
    # previous mask (non-NULL old set).  A SIG_BLOCK / SIG_UNBLOCK that does not record what was there cannot be undone exactly:
    # a signal the caller had blocked comes back unblocked (or the reverse).
    for pname in ("pthread_sigmask", "sigprocmask"):
        for F, n in callsites(prog, pname):
            how = const_of(prog, n["c"][1])
            old = strip(n["c"][3])
            old_null = old.get("null") or old.get("val") == 0 or expr_str(old) in ("NULL", "0", "((void *)0)")
            ok = how == 2 or not old_null
            if F.name in ("signal_mask",) and how is None:
                continue         # the one wrapper hands `how` and `old` through; its callers are judged on the paths below
            ctx.ob("C12.M1w", site_of(F, n), "a change of the thread's signal mask is either a SIG_SETMASK or records the previous mask, so "
                   "that it can be restored exactly", ok, {"how": how, "old_set": expr_str(old)[:30]})
    if wrappers - {"signal_mask"} and any(not o.ok for o in ctx.obs if o.rule == "C12.M1w"):
        return None, None, None
    if wrappers != {"signal_mask"} or not users <= {"process_fork", "process_start"} or "process_fork" not in users:
        raise AnalysisBroken("C12.M1: signal-mask primitives are called from %s, whose callers are %s; the confirmed "
                             "table is signal_mask <- process_fork (/ process_start). Re-confirm the rule instances." % (sorted(wrappers), sorted(users)))
    if "process_start" in users:
        # the mask is (also) handled one level up: judge the mask at every return of process_start, with process_fork inlined
        from .. import summaries as S
        Fs = prog.fn("process_start")
        Is = new_interp(prog, overrides=S.HEAP_HELPERS)
        rs = Is.run(Fs, S.process_start_entry(prog, Fs))
        ctx.stats("E-ABS", Is.stats)
        ORIG0 = frozenset({("sym", "ORIG")})
        EMPTY0 = frozenset({("sym", "EMPTY")})
        seen0 = set()
        for st, rv in rs.exits:
            mask = st.mon.get("sigmask", ORIG0)
            proc = st.mon.get("proc", "parent")
            site, node = ret_site(Fs, st)
            key = (site, proc, show(mask))
            if key in seen0:
                continue
            seen0.add(key)
            if proc == "child":
                ctx.ob("C12.M3m", site + " [child of process_start,%s]" % config, "the child returns (fork mode) with an empty signal mask installed",
                       mask == EMPTY0, {"mask_at_return": show(mask)}, nontrivial=True)
            else:
                ctx.ob("C12.M1", site + " [process_start,%s]" % config, "the calling thread's signal mask at this return equals the mask at entry",
                       mask == ORIG0, {"mask_at_return": show(mask)}, nontrivial=True)
        for e in rs.events:
            if e[0] == "exec":
                m = e[4].mon.get("sigmask", ORIG0)
                ctx.ob("C12.M3x", "process_start: execvp [%s]" % config, "the program is exec'ed with an empty signal mask", m == EMPTY0,
                       {"mask_at_exec": show(m)}, nontrivial=True)
                break
    prim = {p for p in MASK_PRIMS if callsites(prog, p)}
    want = {"posix-mt": {"pthread_sigmask"}, "posix-mt-assert": {"pthread_sigmask"}, "posix-st": {"sigprocmask"}}[config]
    ctx.ob("C12.M1p", "signal_mask[%s]" % config, "the mask primitive used in configuration %s is %s" % (config, sorted(want)),
           prim == want, {"found": sorted(prim)})
    F = prog.fn("process_fork")
    I = new_interp(prog)
    res = I.run(F)
    ctx.stats("E-ABS", I.stats)
    ORIG = frozenset({("sym", "ORIG")})
    EMPTY = frozenset({("sym", "EMPTY")})
    nparent = nchild = 0
    for st, rv in res.exits:
        site, node = ret_site(F, st)
        mask = st.mon.get("sigmask", ORIG)
        proc = st.mon.get("proc", "parent")
        detail = {"config": config, "line": node["l"][0] if node else None, "returns": show(rv), "mask_at_return": show(mask),
                  "side": proc}
        if proc == "child":
            nchild += 1
            if "process_start" in users:
                continue        # judged at the returns / exec of process_start above
            ctx.ob("C12.M3m", site + " [child,%s]" % config, "the child returns with an empty signal mask installed",
                   mask == EMPTY, detail, nontrivial=True)
        else:
            nparent += 1
            ctx.ob("C12.M1", site + " [%s]" % config,
                   "the calling thread's signal mask at this return equals the mask at entry", mask == ORIG, detail,
                   nontrivial=True)
    if nparent < 4 or nchild < 1:
        raise AnalysisBroken("C12.M1: only %d parent / %d child return states found in process_fork" % (nparent, nchild))
    # no parent-side abort with the mask changed either
    for st, n, fn in res.aborts:
        if st.mon.get("proc") != "child":
            ctx.ob("C12.M1", site_of(fn, n) + " [%s]" % config, "no parent-side path ends in a noreturn call", False,
                   {"line": n["l"][0]})
    return res, F, I


def check_m2(ctx, prog, res_fork, F_fork):
    """process-wide effects only on the child side of fork"""
    # (a) syntactic inventory over the whole library
    allowed_fns = {"process_fork", "process_start"}
    sites = []
    for name in PROCESS_WIDE:
        for F, n in callsites(prog, name):
            sites.append((name, F, n))
    for F in prog.funcs_all:
        for n in F.nodes.values():
            if n["k"] == "BinaryOperator" and n["op"] == "=":
                l = strip(n["c"][0])
                if l["k"] == "DeclRefExpr" and l.get("dk") == "global" and l["name"] == "environ":
                    sites.append(("environ=", F, n))
    for name, F, n in sites:
        ctx.ob("C12.M2a", site_of(F, n), "process-wide effect `%s` appears only in the forking functions" % name,
               F.name in allowed_fns, {"line": n["l"][0], "function": F.name})
    ctx.floor("C12.M2a", 7, "sigaction, dup2, chdir, execvp, environ=, 2x _exit")
    # (b) path-sensitive: every such event in process_fork happens on the child side
    seen = set()
    for kind, fn, n, info, st, stack in (x[:6] for x in res_fork.events):
        if kind in ("sigaction", "chdir", "exec", "dup2", "store-global") or (kind == "noreturn"):
            key = (kind, n["id"], st.mon.get("proc"))
            if key in seen:
                continue
            seen.add(key)
            ctx.ob("C12.M2b", site_of(fn, n), "this process-wide effect is reached only on the child side of fork()",
                   st.mon.get("proc") == "child", {"line": n["l"][0], "side": st.mon.get("proc", "before fork")},
                   nontrivial=True)
    # (c) in process_start: same, with process_fork summarised
    from ..summaries import analyse_process_start
    res, F, I = analyse_process_start(ctx, prog)
    seen = set()
    for kind, fn, n, info, st, stack in (x[:6] for x in res.events):
        if kind in ("sigaction", "chdir", "exec", "dup2", "store-global", "noreturn", "sigmask"):
            if kind == "store-global" and info[0] != ("g", "environ"):
                continue
            key = (kind, n["id"], st.mon.get("proc"))
            if key in seen:
                continue
            seen.add(key)
            ctx.ob("C12.M2b", site_of(fn, n), "this process-wide effect is reached only on the child side of fork()",
                   st.mon.get("proc") == "child", {"line": n["l"][0], "side": st.mon.get("proc", "before fork")},
                   nontrivial=True)
    ctx.floor("C12.M2b", 7)


def check_m3(ctx, prog):
    """disposition reset covers 1..31 on every child path that returns"""
    F = prog.fn("process_fork")
    def is_null_arg(a):
        a = strip(a)
        while a["k"] in ("ParenExpr", "CStyleCastExpr", "ImplicitCastExpr") and a.get("c"):
            a = strip(a["c"][0])
        return a["k"] in ("GNUNullExpr", "CXXNullPtrLiteralExpr") or (a["k"] == "IntegerLiteral" and a.get("val") == 0)
    # calls that install an action (second argument not a null pointer); calls that only query are left to the interpreter
    sig_calls = [n for n in F.calls("sigaction") if not is_null_arg(n["c"][2])]
    if len(sig_calls) != 1:
        raise AnalysisBroken("C12.M3: expected one sigaction call that installs an action in process_fork, found %d" % len(sig_calls))
    call = sig_calls[0]
    arg0 = strip(call["c"][1])
    if arg0["k"] != "DeclRefExpr":
        raise AnalysisBroken("C12.M3: signal number argument of sigaction is not a plain variable")
    var = arg0["name"]
    # the loop variable is only written by its declaration and the loop increment
    writes = []
    for n in F.nodes.values():
        if n["k"] == "BinaryOperator" and n["op"] == "=" or n["k"] == "CompoundAssignOperator":
            l = strip(n["c"][0])
            if l["k"] == "DeclRefExpr" and l["name"] == var:
                writes.append(n)
        if n["k"] == "UnaryOperator" and n["op"] in ("++", "--"):
            l = strip(n["c"][0])
            if l["k"] == "DeclRefExpr" and l["name"] == var:
                writes.append(n)
    loops = [a for a in F.ancestors(call) if a["k"] == "ForStmt"]
    ok_writes = len(writes) == 1 and loops and writes[0]["id"] == loops[0].get("inc") and writes[0].get("op") == "++"
    ctx.ob("C12.M3w", "process_fork: " + var, "the signal loop variable changes only by the loop's own ++", ok_writes,
           {"writes": [expr_str(w) for w in writes]})
    # C12.M3q: inside the loop no path reaches the next iteration without passing the installing call
    cfg = F.cfg
    def block_of(nid):
        bs = [B for B in cfg.blocks.values() if nid in [e if isinstance(e, int) else e.get("id") for e in B.elems]]
        return bs[0] if bs else None
    if loops:
        loop = loops[0]
        Bs = block_of(call["id"])
        Binc = block_of(loop.get("inc")) if loop.get("inc") is not None else None
        heads = [B for B in cfg.blocks.values() if B.term == loop["id"]]
        if Bs is None or Binc is None or len(heads) != 1:
            raise AnalysisBroken("C12.M3q: blocks of the reset loop not found in the CFG of process_fork")
        entry = heads[0].succs[0][0]
        seen_b, todo, skipping = set(), [entry], False
        while todo:
            b = todo.pop()
            if b is None or b in seen_b or b == Bs.id:
                continue
            seen_b.add(b)
            if b == Binc.id:
                skipping = True
                break
            todo.extend(x for x, _ in cfg.blocks[b].succs)
        ctx.ob("C12.M3q", "process_fork: loop over %s" % var, "no path through the loop body reaches the next iteration without passing the "
               "sigaction call that installs SIG_DFL (a signal skipped because it is ignored or at its default in the parent keeps "
               "that disposition across exec)", not skipping, {"blocks_searched": len(seen_b)}, nontrivial=True)
    K = set(range(-3, 40)) | {prog.const("REPROC_EINVAL")}
    from ..models import m_sigaction

    def m_sigaction_track(I_, fn, n, args, st):
        outs = m_sigaction(I_, fn, n, args, st)
        if not (args[1] - {"NULL"}):
            return outs
        res_ = []
        for s_, rv_ in outs:
            s2 = s_.copy()
            s2.mon["last_reset"] = args[0]
            res_.append((s2, rv_))
        return res_
    I = new_interp(prog, K=None, keep_live=[var], extra_models={"sigaction": m_sigaction_track})
    I.K = sorted(set(I.K) | K)
    I.Kset = set(I.K)
    I.TOP_INT = frozenset(I.K) | {"NEG", "POS"}
    res = I.run(F)
    ctx.stats("E-ABS", I.stats)
    covered = set()
    handler_ok = True
    hdetail = []
    for kind, fn, n, info, st, stack in (x[:6] for x in res.events):
        if kind == "sigaction":
            if not (info[1] - {"NULL"}):
                continue   # a query changes nothing
            for a in info[0]:
                covered.add(a)
            # the action installed is SIG_DFL
            for t in [a[1] for a in info[1] if isinstance(a, tuple) and a[0] == "addr"]:
                vals = [v for c, v in st.mem.items() if c[-1] == "sa_handler" and cell_base(c) == cell_base(t)]
                hdetail.append([show(v) for v in vals])
                if not vals or any(v not in (frozenset({"NULL"}), frozenset({0})) for v in vals):
                    handler_ok = False
            if info[2] != frozenset({"NULL"}):
                pass
    need = set(range(1, 32))
    ctx.ob("C12.M3r", "process_fork: sigaction(%s, ...)" % var,
           "the reset loop calls sigaction for every signal number 1..31", need <= covered,
           {"missing": sorted(need - covered)}, nontrivial=True)
    ctx.ob("C12.M3h", "process_fork: sigaction(%s, ...)" % var, "the action installed is SIG_DFL", handler_ok,
           {"sa_handler": hdetail[:3]}, nontrivial=True)
    vcell = None
    nchild = 0
    for st, rv in res.exits:
        if st.mon.get("proc") != "child":
            continue
        nchild += 1
        vals = [v for c, v in st.mem.items() if c[0] == "v" and I.name_of_did.get(c[1]) == var]
        site, node = ret_site(F, st)
        pos_lo = next(i for i in range(1, 1 << 22) if i not in I.Kset)   # 'POS' = positive and not a tracked constant
        ok = bool(vals) and all((pos_lo if a == "POS" else atom_interval(a)[0]) >= 32 for v in vals for a in v)
        ctx.ob("C12.M3e", site + " [child]", "on every child path that returns, the reset loop ran to its end "
               "(loop variable >= 32), i.e. no early exit skipped signals", ok,
               {"loop_var_at_return": [show(v) for v in vals]}, nontrivial=True)
    if nchild < 1:
        raise AnalysisBroken("C12.M3: no child return state")


def check_m4(ctx, prog):
    """the parent's environment is only read; getcwd is the only cwd call outside the child"""
    F = prog.fn("strv_concat")
    I = new_interp(prog)
    res = I.run(F)
    ctx.stats("E-ABS", I.stats)
    stores = [(fn, n, info) for kind, fn, n, info, st, stack in (x[:6] for x in res.events) if kind == "store-input"]
    ctx.ob("C12.M4", "strv_concat", "copying the environment never writes through its input arrays "
           "(the parent's environ and its strings are only read)", not stores,
           {"stores": [site_of(fn, n) for fn, n, _ in stores][:5]}, nontrivial=True)
    # environ is written nowhere but in the child region (M2); here: it is read only in process_start
    readers = set()
    for Fn in prog.funcs_all:
        for n in Fn.nodes.values():
            if n["k"] == "DeclRefExpr" and n.get("dk") == "global" and n["name"] == "environ":
                readers.add(Fn.name)
    ctx.ob("C12.M4e", "environ", "environ is referenced only by the forking function", readers <= {"process_start"},
           {"functions": sorted(readers)})


WRITES_ARG = {"strtok": [0], "strtok_r": [0], "strsep": [0], "strcpy": [0], "strncpy": [0], "strcat": [0], "strncat": [0],
              "stpcpy": [0], "memcpy": [0], "memmove": [0], "memset": [0], "sprintf": [0], "snprintf": [0], "free": [0],
              "realloc": [0], "putenv": [0], "fgets": [0], "read": [1], "getcwd": [0], "bzero": [0]}
ENV_SOURCES = ("getenv", "secure_getenv")


def check_env_strings(ctx, prog):
    """M4g: strings that belong to the live environment (what getenv() returns) are only read.  Flow-insensitive taint per function:
    a local initialised or assigned from getenv() - directly, through another tainted local, pointer arithmetic or ?: - is tainted;
    a tainted pointer must not be written through, handed to a library function in an argument position that function writes
    (strtok, strcpy destination, ...), or freed; handed to a library function of this project, that function's parameter is
    tainted in turn (three levels)."""
    lib = [F for F in prog.funcs_all if F.file.startswith(prog.root) and "/test/" not in F.file and "/examples/" not in F.file]
    byname = {F.name: F for F in lib}
    sources = []
    hits = []

    def tainted_expr(F, e, tv):
        e = strip(e)
        k = e["k"]
        if k in CALL_KINDS and e.get("callee") in ENV_SOURCES:
            return True
        if k == "DeclRefExpr":
            return e.get("did") in tv
        if k == "ConditionalOperator":
            return tainted_expr(F, e["c"][1], tv) or tainted_expr(F, e["c"][2], tv)
        if k == "BinaryOperator" and e["op"] in ("+", "-", ","):
            return any(tainted_expr(F, c, tv) for c in e["c"])
        if k == "UnaryOperator" and e.get("op") in ("++", "--"):
            return tainted_expr(F, e["c"][0], tv)
        return False

    def analyse(F, seed_params, depth, via):
        tv = set(seed_params)
        changed = True
        while changed:
            changed = False
            for n in F.nodes.values():
                dst = src = None
                if n["k"] == "VarDecl" and n.get("c"):
                    dst, src = n.get("did"), n["c"][0]
                elif n["k"] == "BinaryOperator" and n["op"] == "=" and strip(n["c"][0])["k"] == "DeclRefExpr":
                    dst, src = strip(n["c"][0]).get("did"), n["c"][1]
                if dst is not None and dst not in tv and tainted_expr(F, src, tv):
                    tv.add(dst)
                    changed = True
        for n in F.nodes.values():
            k = n["k"]
            if k in ("BinaryOperator", "CompoundAssignOperator") and n.get("op", "").endswith("=") and n["op"] not in ("==", "!=", "<=", ">="):
                l = strip(n["c"][0])
                if l["k"] == "ArraySubscriptExpr" and tainted_expr(F, l["c"][0], tv) or l["k"] == "UnaryOperator" and l.get("op") == "*" and tainted_expr(F, l["c"][0], tv):
                    hits.append("%s: %s%s" % (F.name, expr_str(n)[:50], via))
            if k in CALL_KINDS:
                callee = n.get("callee")
                args = n["c"][1:]
                if callee in WRITES_ARG:
                    for i in WRITES_ARG[callee]:
                        if i < len(args) and tainted_expr(F, args[i], tv):
                            hits.append("%s: %s%s" % (F.name, expr_str(n)[:60], via))
                elif callee in byname and depth < 3:
                    G = byname[callee]
                    seeds = {G.params[i]["did"] for i, a in enumerate(args) if i < len(G.params) and tainted_expr(F, a, tv)}
                    if seeds:
                        analyse(G, seeds, depth + 1, via + " <- %s" % F.name)

    for F in lib:
        calls = [n for n in F.nodes.values() if n["k"] in CALL_KINDS and n.get("callee") in ENV_SOURCES]
        if calls:
            sources += ["%s: %s" % (F.name, expr_str(c)[:40]) for c in calls]
            analyse(F, set(), 0, "")
    ctx.ob("C12.M4g", "library: strings of the live environment", "what getenv() returns is only read - never tokenised in place, copied "
           "over, written through or freed (the caller's environment is exactly what it was)", not hits,
           {"getenv_sites": sources[:6], "writes": sorted(set(hits))[:4]}, nontrivial=bool(sources))


def check(ctx):
    res, F, I = check_m1(ctx, "posix-mt")
    if res is None:
        return          # M1w already failed on a mask change this check has no table for
    check_m1(ctx, "posix-st")
    prog = ctx.prog("posix-mt")
    check_m2(ctx, prog, res, F)
    check_m3(ctx, prog)
    check_m4(ctx, prog)
    check_env_strings(ctx, prog)
    child_exit_rule(ctx, prog, "C12.M2x")      # the caller's exit handlers and stdio buffers are not run / flushed by a failed child
    ctx.floor("C12.M1", 8)
