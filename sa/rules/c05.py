"""C05 - no descriptor, memory or process leak, no foreign or double close, on any path."""
from ..facts import AnalysisBroken, strip, expr_str
from ..rulelib import *
from ..absint import State
from .. import apirules as R
from .. import apimodel as A
from .. import startpath as SP
from .. import summaries as S
from ..models import fs

EXPLANATION = (
    "Static analysis: resource typestate by abstract interpretation on all CFG paths, with every libc call (close and the "
    "allocators included) failing and succeeding. Descriptors and heap blocks are tokens created by pipe/open/fcntl/malloc...; "
    "closing a closed token, closing a token the library did not create (user handle, fileno() result) and freeing twice are "
    "events; an open token that no handle field refers to at a return is a leak. Covered: the whole start path (three composed "
    "runs), every exported function from every handle state (object invariant, so any call sequence ending in destroy), "
    "destroy from every state (nothing left), the helper allocators (strv_concat, path_prepend_cwd, sink_string, pipe_poll, "
    "reproc_poll, run). libc close() is called by one function only. Not decided: heap state over arbitrary call sequences "
    "beyond the per-function + handle-invariant argument. In this check read() on a valid pipe may also fail with errors other than EINTR, so that a child left behind by an odd read failure after fork is seen.")
ASSUMPTIONS = [
    "clang 14 parser/CFG and the fact extractor are correct", "libc models in sa/models.py",
    "summaries of process_fork / process_start verified in the same run; parse_options summary verified by C13",
]


def check_closer(ctx, prog):
    sites = callsites(prog, "close")
    for F, n in sites:
        ctx.ob("C05.O2a", site_of(F, n), "libc close() is called only by the one helper that returns the invalid marker",
               F.name == "handle_destroy", {"line": n["l"][0]})
    ctx.floor("C05.O2a", 1)
    for name in ("fclose", "closedir", "close_range", "closefrom"):
        for F, n in callsites(prog, name):
            ctx.ob("C05.O2a", site_of(F, n), "no other closing primitive is used", False, None)
    # the closer maps the invalid marker to itself without calling close
    F = prog.fn("handle_destroy")
    I = new_interp(prog)
    st = State()
    p = F.params[0]
    st.mem[("v", F.gdid(p["did"]))] = fs(prog.const("HANDLE_INVALID"))
    res = I.run(F, [st])
    ok = all(rv == fs(prog.const("HANDLE_INVALID")) for s, rv in res.exits) and not [e for e in res.events if e[0] == "close"]
    ctx.ob("C05.O2i", "handle_destroy(HANDLE_INVALID)", "destroying the invalid marker is a no-op that returns the invalid marker",
           ok, None, nontrivial=True)
    st = State()
    t = ("fd", "x", 0, 0)
    st.mem[("v", F.gdid(p["did"]))] = fs(t)
    st.res[t] = ("open", True, "x")
    res = I.run(F, [st])
    ok = all(rv == fs(prog.const("HANDLE_INVALID")) and s.res.get(t, ("closed",))[0] == "closed" for s, rv in res.exits)
    ctx.ob("C05.O2i", "handle_destroy(fd)", "destroying a valid descriptor closes it (also when close fails) and returns the "
           "invalid marker for the caller to store back", ok, None, nontrivial=True)


def events_clean(ctx, res, tag, child_ok=True):
    bad = []
    for e in res.events:
        if e[0] in ("double-close", "double-free", "free-nonheap", "close-ambiguous"):
            bad.append(e)
        elif e[0] in ("close-foreign", "close-raw"):
            st = e[4]
            if st.mon.get("proc") == "child" and child_ok:
                continue     # the forked child closes its *copies* of foreign descriptors on purpose (C11)
            bad.append(e)
    ctx.ob("C05.O2", tag, "on no path is a descriptor closed twice, a foreign descriptor (user handle, FILE, parent stream) "
           "closed in the parent, or a block freed twice", not bad,
           {"events": sorted({(e[0], site_of(e[1], e[2]), show(e[3])[:60], "/".join(e[5])) for e in bad})[:6]}, nontrivial=True)


def check_start_path(ctx, prog):
    rf = SP.fork_run(ctx, prog)
    Ff = prog.fn("process_fork")
    events_clean(ctx, rf, "process_fork")
    for st, rv in rf.exits:
        if st.mon.get("proc") == "child":
            continue
        site, node = ret_site(Ff, st)
        ctx.ob("C05.O3", site + " [process_fork]", "the error pipe created here is closed on every parent-side return",
               not SP.open_fds(st) and not SP.live_mem(st), {"open": [str(x) for x in SP.open_fds(st)]}, nontrivial=True)
    rs, Fs, Is, pcell = SP.verify_start_summary(ctx, prog)
    events_clean(ctx, rs, "process_start")
    ex = ("fd", "exit-pipe", 0, 0)
    for st, rv in rs.exits:
        if st.mon.get("proc") == "child":
            continue
        site, node = ret_site(Fs, st)
        left = [x for x in SP.open_fds(st) if x != ex]
        ctx.ob("C05.O3", site + " [process_start]", "error pipe, program path and environment copy are released on every "
               "parent-side return; the caller's handles are left alone", not left and not SP.live_mem(st)
               and st.res.get(ex, ("open",))[0] == "open",
               {"open": [str(x) for x in left], "mem": [str(x) for x in SP.live_mem(st)], "failed": st.mon.get("failed")}, nontrivial=True)
    res, F, I, obj = SP.reproc_start_run(ctx, prog)
    events_clean(ctx, res, "reproc_start")
    seen = set()
    for st, rv in res.exits:
        if st.mon.get("proc") == "child":
            continue
        refd = set()
        for c, v in st.mem.items():
            if cell_base(c) == obj:
                for a in v or ():
                    if isinstance(a, tuple):
                        refd.add(a)
        leaked = [k for k in SP.open_fds(st) if k not in refd]
        key = (tuple(leaked), tuple(SP.live_mem(st)), all_neg(rv))
        if key in seen:
            continue
        seen.add(key)
        site, node = ret_site(F, st)
        ctx.ob("C05.O3", site + (" [failure]" if all_neg(rv) else " [success]"), "every descriptor start created is closed again or "
               "held in a handle field when start returns; nothing allocated is left", not leaked and not SP.live_mem(st),
               {"unreferenced_open": [str(x) for x in leaked], "mem": [str(x) for x in SP.live_mem(st)],
                "failed": st.mon.get("failed")}, nontrivial=True)


def check_allocators(ctx, prog):
    """helpers with their own heap discipline, each on all paths"""
    # strv_concat on concrete-shape arrays (2 + 1 entries), loops unrolled exactly: on every path (allocation k failing for every
    # k) the copies made so far and the array are freed exactly once; on success all four blocks belong to the result
    F = prog.fn("strv_concat")
    I = new_interp(prog)
    I.widen = False
    p = {x["name"]: ("v", F.gdid(x["did"])) for x in F.params}
    A_, B_ = ("g", "array_a"), ("g", "array_b")
    st = State()
    st.mem[p["a"]] = fs(("addr", ("i", A_, 0)))
    st.mem[p["b"]] = fs(("addr", ("i", B_, 0)))
    for i in range(2):
        st.mem[("i", A_, i)] = fs(("str", "a%d" % i))
    st.mem[("i", A_, 2)] = fs("NULL")
    st.mem[("i", B_, 0)] = fs(("str", "b0"))
    st.mem[("i", B_, 1)] = fs("NULL")
    res = I.run(F, [st])
    ctx.stats("E-ABS", I.stats)
    events_clean(ctx, res, "strv_concat")
    seen = set()
    for s, rv in res.exits:
        live = [k for k, v in s.res.items() if k[0] == "mem" and v[0] in ("live", "maybe-freed")]
        key = (show(rv)[:20], len(live), s.mon.get("failed"))
        if key in seen:
            continue
        seen.add(key)
        if rv == fs("NULL"):
            ctx.ob("C05.O3s", "strv_concat [fails at %s]" % (s.mon.get("failed") or "?"), "when an allocation fails part way, every copy "
                   "made so far and the array itself have been freed", not live, {"still_allocated": [str(x) for x in live]}, nontrivial=True)
        else:
            t = next(iter(rv)) if len(rv) == 1 else None
            held = set()
            if isinstance(t, tuple) and t[0] == "mem":
                held.add(t)
                for c, v in s.mem.items():
                    if cell_base(c) == ("heap", t):
                        held |= {a for a in v if isinstance(a, tuple) and a[0] == "mem"}
            ctx.ob("C05.O3s", "strv_concat [success]", "on success the array and the three copies are all reachable from the result "
                   "(nothing else stays allocated)", len(live) == 4 and set(live) == held, {"allocated": len(live), "reachable": len(held)}, nontrivial=True)
    ctx.floor("C05.O3s", 3)
    Ff = prog.fn("strv_free")
    frees = [n for n in Ff.calls("free")]
    ctx.ob("C05.O3s", "strv_free", "strv_free frees every element in a loop and then the array", len([n for n in frees if enclosing_loops(Ff, n)]) == 1
           and len(frees) == 2, {"free_calls": [expr_str(x) for x in frees]})
    # generic token discipline for the remaining allocating functions
    for name in ("path_prepend_cwd", "pipe_poll", "pipe_init", "redirect_path"):
        F = prog.fn(name)
        I = new_interp(prog)
        res = I.run(F)
        ctx.stats("E-ABS", I.stats)
        events_clean(ctx, res, name)
        for st, rv in res.exits:
            site, node = ret_site(F, st)
            ret_toks = {a for a in rv if isinstance(a, tuple) and a[0] in ("mem", "fd")}
            out_toks = set()
            for c, v in st.mem.items():
                if cell_base(c)[0] == "d":
                    for a in v or ():
                        if isinstance(a, tuple) and a[0] in ("mem", "fd"):
                            out_toks.add(a)
            left = [k for k in SP.open_fds(st) + SP.live_mem(st) if k not in ret_toks and k not in out_toks]
            failed_ret = rv == fs("NULL") or all_neg(rv)
            if failed_ret:
                left = SP.open_fds(st) + SP.live_mem(st)
            ctx.ob("C05.O3", site + " [%s]" % name, "everything acquired here is released, returned, or handed out through an "
                   "out-parameter; on failure nothing is kept", not left, {"left": [str(x) for x in left], "returns": show(rv)[:60]},
                   nontrivial=True)
    # reproc_poll / sink_string / run_ex: own allocations
    F = prog.fn("reproc_poll")
    I = new_interp(prog, overrides=S.POLL_HELPERS)
    st0 = State()
    st0.mon["nofail"] = True
    res = I.run(F, [st0])
    ctx.stats("E-ABS", I.stats)
    for st, rv in res.exits:
        site, node = ret_site(F, st)
        ctx.ob("C05.O3", site + " [reproc_poll]", "the temporary pipe array is freed on every return", not SP.live_mem(st),
               {"mem": [str(x) for x in SP.live_mem(st)]}, nontrivial=True)


def check(ctx):
    prog = ctx.prog("posix-mt")
    from .. import rulelib
    rulelib.ENV_FAULTS = True      # leaks must not appear either when a read on a valid pipe fails for an odd reason (EIO ...)
    check_closer(ctx, prog)
    check_start_path(ctx, prog)
    R.start_closure(ctx, prog, "C05.O2s")
    R.c05_api(ctx, prog)
    check_allocators(ctx, prog)
    from . import c01
    c01.wait_rules(ctx, prog)      # "successfully waited for" means reaped: a status is returned only with the child reaped (C01.R3)
    from . import c16
    c16.sink_string_rules(ctx, prog, "C05.O3k")
    c16.run_ex_rules(ctx, prog, "C05.O3r")
