"""C11 - the child inherits no descriptor besides its three streams and the exit handle."""
from ..facts import AnalysisBroken, strip, expr_str
from ..absint import State, walk_nodes, atom_interval
from ..models import fs, ev
from ..rulelib import *
from .. import fdtable as T
from .. import linexpr as L
from .. import summaries as S

EXPLANATION = (
    "Static analysis. (X1) who-may-call inventory of every descriptor-producing call in the library and, per producer, "
    "close-on-exec at birth on all paths (pipe ends flagged before they are published; open with O_CLOEXEC; duplicates made with "
    "F_DUPFD_CLOEXEC). (X0) the flag helper really sets/clears FD_CLOEXEC. (X2) the child's close-all loop: linear bound "
    "comparison shows its range is [0, RLIMIT_NOFILE) (every permitted descriptor number is visited), and abstract interpretation "
    "of the loop body shows each visited descriptor is closed unless it is in the keep list, one of the error pipe ends, or not "
    "open; the keep list is exactly {in, out, err, error pipe ends, exit handle}. (X3) with the descriptor-table model over all "
    "68 handle layouts: at exec everything still open other than 0, 1, 2 has close-on-exec set, except the exit handle, whose flag "
    "is cleared. Descriptors opened concurrently by other threads are covered by X2 (they are closed in the child whatever their "
    "flags). Not decided: nothing about the kernel beyond the stated call semantics. The keep-list test is evaluated on a concrete list (X2m: yes for members, no for any other number); a build configuration in which no loop of the forking code closes anything (the close compiled out with ASSERT) is a violation.")
ASSUMPTIONS = [
    "clang 14 parser/CFG and the fact extractor are correct",
    "descriptor numbers are < RLIMIT_NOFILE (soft limit); close-on-exec descriptors are closed by exec; after fork the child is single threaded",
    "dup2/fcntl/pipe/open semantics as in sa/models.py and sa/fdtable.py",
]

PRODUCERS = ("pipe", "pipe2", "open", "openat", "creat", "dup", "dup2", "dup3", "socket", "socketpair", "accept", "accept4", "fopen",
             "fdopen", "freopen", "eventfd", "epoll_create", "epoll_create1", "signalfd", "timerfd_create", "inotify_init",
             "memfd_create", "mkstemp", "opendir", "popen", "tmpfile", "fcntl")


def birth_rules(ctx, prog):
    found = {}
    for name in PRODUCERS:
        for F, n in callsites(prog, name):
            found.setdefault(name, []).append((F, n))
    # table: producer -> where it may appear
    allowed = {"pipe": {"pipe_init"}, "open": {"redirect_path"}, "dup2": {"process_start"}, "fcntl": None}

    def only_from_process_start(fname, seen=None):
        """the function is process_start itself or a helper whose every caller (transitively) is"""
        seen = seen or set()
        if fname == "process_start":
            return True
        if fname in seen:
            return False
        seen.add(fname)
        callers = {Fx.name for Fx in prog.funcs_all for c in Fx.calls(fname)}
        return bool(callers) and all(only_from_process_start(c, seen) for c in callers)
    # duplications happen on the child side only: read off the all-paths run of process_start (helpers inlined)
    from .. import startpath as SP
    rs = SP.start_run(ctx, prog)[0]
    parent_dups = sorted({site_of(e[1], e[2]) for e in rs.events if (e[0] == "dup2" or (e[0] == "fd-create" and e[3] and e[3][0] == "dupfd"))
                          and e[4] is not None and e[4].mon.get("proc") != "child"})
    ctx.ob("C11.X1", "process_start: duplications", "descriptors are duplicated (dup2, fcntl(F_DUPFD_CLOEXEC)) on the child side only",
           not parent_dups, {"on_the_parent_side": parent_dups[:3]}, nontrivial=True)
    for name, sites in found.items():
        for F, n in sites:
            if name == "fcntl":
                cmd = const_of(prog, n["c"][2])
                if cmd in (0, 1030):
                    ctx.ob("C11.X1", site_of(F, n), "a descriptor is duplicated only by process_start (or a helper only it uses) and with "
                           "F_DUPFD_CLOEXEC", only_from_process_start(F.name) and cmd == 1030, {"cmd": cmd, "line": n["l"][0]})
                continue
            ok = name in allowed and (F.name in allowed[name] or (name == "dup2" and only_from_process_start(F.name)))
            ctx.ob("C11.X1", site_of(F, n), "descriptor-producing calls appear only at the known, reviewed sites (pipe in pipe_init, open "
                   "in redirect_path, dup2 on the child side of process_start)", ok, {"call": name, "function": F.name, "line": n["l"][0]})
    ctx.floor("C11.X1", 3)
    # pipe(): both ends close-on-exec before they are published, on every path
    F = prog.fn("pipe_init")
    I = new_interp(prog)
    I.widen = False
    st = State()
    st.mon["nofail"] = True
    res = I.run(F, [st])
    ctx.stats("E-ABS", I.stats)
    n = 0
    for s, rv in res.exits:
        if rv != fs(0):
            continue
        n += 1
        toks = [k for k, v in s.res.items() if k[0] == "fd" and v[0] == "open"]
        ctx.ob("C11.X1p", "pipe_init [success]", "both ends of a new pipe have close-on-exec set when they are handed out",
               len(toks) == 2 and all(s.res[t][1] is True for t in toks), {"ends": {str(t): s.res[t] for t in toks}}, nontrivial=True)
    if n < 1:
        raise AnalysisBroken("pipe_init: no successful exit")
    # open(): O_CLOEXEC
    for Fn, node in callsites(prog, "open"):
        from ..models import or_contains_const
        ctx.ob("C11.X1o", site_of(Fn, node), "files are opened with O_CLOEXEC", or_contains_const(node["c"][2], 0o2000000, Fn), {"flags": expr_str(node["c"][2])})
    ctx.floor("C11.X1o", 1)


def leaf_contract(ctx, prog):
    """X0: handle_cloexec(handle, enable) = F_GETFD, set/clear exactly FD_CLOEXEC under `enable`, F_SETFD on the same descriptor"""
    F = prog.fn("handle_cloexec")
    # evaluated, not pattern-matched: the helper is interpreted for every current flag word 0..3 and both requests, with fcntl
    # replaced by a model that answers F_GETFD with that word and records what F_SETFD writes, and to which descriptor
    problems = []
    ncase = 0
    for cur in (0, 1, 2, 3):
        for enable in (0, 1):
            log = []

            def m_fcntl(I_, fn, n, args, st, cur=cur, log=log):
                cmd = next(iter(args[1])) if len(args[1]) == 1 else None
                log.append((cmd, args[0], args[2] if len(args) > 2 else None))
                if cmd == 1:
                    return [(st, fs(cur))]
                return [(st, fs(0))]
            I0 = new_interp(prog, overrides={}, extra_models={"fcntl": m_fcntl})
            I0.overrides.pop("handle_cloexec", None)
            st0 = State()
            st0.mon["nofail"] = True
            hp, ep = [("v", F.gdid(p_["did"])) for p_ in F.params[:2]]
            st0.mem[hp] = fs(("fd", "given", 0, 0))
            st0.mem[ep] = fs(enable)
            r0 = I0.run(F, [st0])
            ctx.stats("E-ABS", I0.stats)
            ncase += 1
            want = (cur | 1) if enable else (cur & ~1)
            gets = [x for x in log if x[0] == 1]
            sets = [x for x in log if x[0] == 2]
            ok = len(gets) == 1 and len(sets) == 1 and log.index(gets[0]) < log.index(sets[0]) and \
                all(x[1] == fs(("fd", "given", 0, 0)) for x in log) and sets[0][2] == fs(want) and all(rv == fs(0) for s_, rv in r0.exits)
            if not ok:
                problems.append({"flags": cur, "enable": enable, "calls": [(c, show(a)[:30], show(v)[:20] if v is not None else None) for c, a, v in log][:4]})
    ctx.ob("C11.X0", "handle_cloexec", "the flag helper reads the descriptor flags, sets FD_CLOEXEC when enabling and clears exactly "
           "FD_CLOEXEC when disabling (every other bit kept), and writes them back to the same descriptor - for each flag word 0..3 and "
           "both requests", not problems and ncase == 8, {"cases": ncase, "problems": problems[:3]}, nontrivial=True)
    # failure of either fcntl is reported
    I = new_interp(prog, overrides={})
    I.overrides.pop("handle_cloexec", None)
    st = State()
    res = I.run(F, [st])
    for s, rv in res.exits:
        if s.mon.get("failed"):
            ctx.ob("C11.X0e", "handle_cloexec [fcntl fails]", "a failing fcntl makes the helper return a negative error", all_neg(rv),
                   {"returns": show(rv)[:40]}, nontrivial=True)


def windows_inherit_list_rule(ctx):
    """X5w (Windows half of the property): every CreateProcessW call that lets the child inherit handles does so under an explicit
    inherit list: its creation flags contain EXTENDED_STARTUPINFO_PRESENT (the flag that makes the attribute list take effect).
    Decided on process.windows.c parsed against the declaration-only windows.h stub; flags that are not compile-time constants
    give no obligation."""
    from . import c18
    try:
        wprog = c18.win_prog(ctx)
    except AnalysisBroken:
        return
    EXT = 0x00080000
    n = 0
    for F in wprog.funcs_all:
        for call in F.calls("CreateProcessW"):
            inherit = const_of(wprog, call["c"][5])
            flags = const_of(wprog, call["c"][6])
            if flags is None or inherit is None:
                continue
            n += 1
            ctx.ob("C11.X5w", site_of(F, call), "a child that inherits handles is created with an explicit inherit list "
                   "(EXTENDED_STARTUPINFO_PRESENT set), so it gets the listed handles and nothing else", (not inherit) or bool(flags & EXT),
                   {"bInheritHandles": inherit, "dwCreationFlags": hex(flags)})
    ctx.extra["windows_CreateProcessW_calls_checked"] = n


def membership_contract(ctx, prog):
    """X2m: the keep-list test answers yes exactly for the members (it decides which descriptors survive the close-all loop)"""
    if "fd_in_set" not in prog.funcs:
        return
    F = prog.fn("fd_in_set")
    from ..absint import State
    p = {x["name"]: ("v", F.gdid(x["did"])) for x in F.params}
    if not {"fd", "fd_set", "size"} <= set(p):
        return
    base = ("g", "keep_list_under_test")
    for fd, want in ((5, 1), (7, 1), (6, 0), (1029, 0)):
        I = new_interp(prog)
        I.widen = False
        I.K = sorted(set(I.K) | {5, 6, 7, 1029})
        I.Kset = set(I.K)
        I.TOP_INT = frozenset(I.K) | {"NEG", "POS"}
        st = State()
        st.mon["nofail"] = True
        st.mem[p["fd_set"]] = fs(("addr", ("i", base, 0)))
        st.mem[("i", base, 0)] = fs(5)
        st.mem[("i", base, 1)] = fs(7)
        st.mem[p["size"]] = fs(2)
        st.mem[p["fd"]] = fs(fd)
        res = I.run(F, [st])
        got = sorted({show(rv) for s_, rv in res.exits})
        unknown = sorted({e[3] for e in res.events if e[0] == "unknown-call"})
        ctx.ob("C11.X2m", "fd_in_set(%d, {5, 7})" % fd, "the keep-list test says yes for a member and no for any other number (an inexact test "
               "lets foreign descriptors survive the close-all loop)", bool(res.exits) and all(rv == fs(want) for s_, rv in res.exits),
               {"answers": got, "expected": want, "calls_without_model": unknown}, nontrivial=True)


def closeall_rules(ctx, prog):
    G = prog.fn("get_max_fd")
    # --- the close-all loop: the one loop of the forking code that closes descriptors (it may live in a helper)
    found = []
    for Fx in prog.funcs_all:
        if not Fx.file.endswith("process.posix.c") or not [x for x in Fx.calls("get_max_fd")]:
            continue
        for n in Fx.walk():
            if n["k"] == "ForStmt" and any(x["k"] == "CallExpr" and x.get("callee") in ("handle_destroy", "close") for x in walk_nodes(n)):
                found.append((Fx, n))
    if not found:
        # the forking code still asks for the descriptor limit but closes nothing in any loop, and uses no range-closing primitive
        # either: the inherited descriptors are simply not closed (e.g. the close sits inside an ASSERT() that this
        # configuration compiles out).  A range-closing primitive would be a mechanism this rule does not know: no verdict.
        other = [c for Fx in prog.funcs_all if Fx.file.endswith("process.posix.c") for nm in ("close_range", "closefrom") for c in Fx.calls(nm)]
        users = [Fx.name for Fx in prog.funcs_all if Fx.file.endswith("process.posix.c") and [x for x in Fx.calls("get_max_fd")]]
        if users and not other:
            ctx.ob("C11.X2", "%s: close-all loop" % users[0], "the forked child closes every descriptor up to the limit that is not in its keep "
                   "list", False, {"found": "no loop in the forking code closes a descriptor in this build configuration (NDEBUG)"}, nontrivial=True)
            return
    if len(found) != 1:
        raise AnalysisBroken("C11.X2: expected one close-all loop in process.posix.c, found %d" % len(found))
    membership_contract(ctx, prog)
    F, loop = found[0]
    init = F.nodes[loop["init"]]
    cond = strip(F.nodes[loop["cond"]])
    inc = strip(F.nodes[loop["inc"]])
    var = None
    start = None
    for x in walk_nodes(init):
        if x["k"] == "VarDecl":
            var = x["name"]
            start = const_of(prog, x["c"][0]) if x.get("c") else None
    step_ok = inc["k"] == "UnaryOperator" and inc["op"] == "++" and expr_str(strip(inc["c"][0])) == var
    bound_var = expr_str(strip(cond["c"][1])) if cond["k"] == "BinaryOperator" and expr_str(strip(cond["c"][0])) == var else None
    op = cond.get("op")
    # the bound variable is the (non-negative) result of get_max_fd()
    from_get = False
    for x in F.walk():
        if x["k"] == "VarDecl" and x["name"] == bound_var and x.get("c"):
            src = strip(x["c"][0])
            if src["k"] == "DeclRefExpr":
                for y in F.walk():
                    if y["k"] == "BinaryOperator" and y["op"] == "=" and expr_str(strip(y["c"][0])) == src["name"] \
                            and strip(y["c"][1]).get("callee") == "get_max_fd":
                        from_get = True
                    if y["k"] == "VarDecl" and y["name"] == src["name"] and y.get("c") and strip(y["c"][0]).get("callee") == "get_max_fd":
                        from_get = True
            elif src.get("callee") == "get_max_fd":
                from_get = True
    # what get_max_fd returns for a finite limit, as a linear form in rlim_cur
    rets = []
    env = {}
    for x in G.walk():
        if x["k"] == "VarDecl" and x.get("c") and x["name"] != "limit":
            f = L.lin(x["c"][0], env)
            if f is not None:
                env[x["name"]] = f
    for x in G.walk():
        if x["k"] == "ReturnStmt" and x.get("c"):
            f = L.lin(x["c"][0], env)
            if f is not None and any(isinstance(k, str) and "rlim_cur" in k for k in f):
                rets.append(f)
    ok = False
    det = {"loop_var": var, "start": start, "cond": expr_str(cond), "get_max_fd_returns": [L.show(f) for f in rets]}
    if var and start == 0 and step_ok and from_get and len(rets) == 1 and op in ("<", "<="):
        excl = L.add(rets[0], {1: 1}) if op == "<=" else rets[0]
        soft = {k: v for k, v in rets[0].items() if k != 1}
        ok = L.geq(excl, soft)
        det["exclusive_upper_bound"] = L.show(excl)
        det["needed"] = L.show(soft)
    # the helper (if any) runs on the child side of process_fork only
    if F.name != "process_fork":
        callers = {Fx.name for Fx, n in callsites(prog, F.name)}
        ctx.ob("C11.X2h", "%s" % F.name, "the close-all helper is called from the forking function only", callers == {"process_fork"}, {"callers": sorted(callers)})
    ctx.ob("C11.X2", "process_fork: close-all loop range", "the loop visits every permitted descriptor number: it starts at 0, steps by 1 and "
           "its exclusive upper bound is at least the soft RLIMIT_NOFILE", ok, det, nontrivial=True)
    # --- body: each visited descriptor is closed unless excused
    FK = prog.fn("process_fork")
    I = new_interp(prog)
    I.keep_live = {var}
    loopfn = F.name

    limit_sides = set()

    def body_hook(I_, fn, n, name, args, st):
        if name in ("getrlimit", "sysconf", "getdtablesize"):
            limit_sides.add((st.mon.get("proc") or "parent (before fork)", site_of(fn, n)))
        if fn.name != loopfn and name != "close":
            return None
        if st.mon.get("proc") != "child":
            return None
        vcells = [c for c in st.mem if c[0] == "v" and I_.name_of_did.get(c[1]) == var]
        cur = st.mem.get(vcells[0]) if vcells else None
        if name == "fd_in_set" and args and cur is not None and args[0] == cur:
            s = st.copy()
            s.mon["probe"] = "keeplist"
            return s
        if name == "fcntl" and cur is not None and args[0] == cur and args[1] == fs(1):
            s = st.copy()
            s.mon["probe"] = "isopen"
            return s
        if name == "close" and cur is not None and args[0] == cur:
            s = st.copy()
            s.mon["iter"] = "closed"
            return s
        return None
    I.hooks_call.append(body_hook)
    # record the verdict of each iteration at the increment
    verdicts = {}

    def store_hook(I_, fn, node, cell, val, st):
        if fn is None or fn.name != loopfn or node is None:
            return None
        if node["k"] == "UnaryOperator" and node["op"] == "++" and cell[0] == "v" and I_.name_of_did.get(cell[1]) == var:
            how = st.mon.get("iter", "skipped")
            verdicts[how] = verdicts.get(how, 0) + 1
            if how == "skipped":
                verdicts.setdefault("skip_reasons", set()).add(st.mon.get("skip", "?"))
            s = st.copy()
            s.mon.pop("iter", None)
            s.mon.pop("skip", None)
            s.mon.pop("probe", None)
            return s
        return None
    I.hooks_store.append(store_hook)

    # excuses are observed at the branch level: a `continue` taken because the loop variable equals an error pipe end,
    # because fd_in_set() said yes, or because fcntl(F_GETFD) failed
    pipe_cmp = {}

    def cmp_hook(I_, fn, node, op, va, vb, st):
        if fn.name != loopfn or op != "==":
            return
        vcells = [c for c in st.mem if c[0] == "v" and I_.name_of_did.get(c[1]) == var]
        cur = st.mem.get(vcells[0]) if vcells else None
        for mine, other in ((va, vb), (vb, va)):
            if cur is not None and mine == cur:
                is_pipe = len(other) == 1 and isinstance(next(iter(other)), tuple) and next(iter(other))[0] == "fd" \
                    and str(st.res.get(next(iter(other)), ("", "", ""))[2]).startswith("pipe")
                pipe_cmp[node["id"]] = pipe_cmp.get(node["id"], True) and is_pipe
    I.hooks_cmp.append(cmp_hook)
    st0 = State()
    res = I.run(FK, [st0])
    ctx.stats("E-ABS", I.stats)
    # structural classification of the ways to reach the increment without closing
    body = F.nodes[loop["body"]]
    conts = [x for x in walk_nodes(body) if x["k"] == "ContinueStmt"]
    excuses = []

    def disjuncts(x):
        x = strip(x)
        if x["k"] == "BinaryOperator" and x["op"] == "||":
            return disjuncts(x["c"][0]) + disjuncts(x["c"][1])
        return [x]
    for c in conts:
        cond_if = None
        for a in F.ancestors(c):
            if a["k"] == "IfStmt":
                cond_if = F.nodes[a["cond"]]
                break
        if cond_if is None:
            excuses.append(("unconditional continue", None))
            continue
        # every way of making the condition true must be an excuse: it is judged disjunct by disjunct
        for d in disjuncts(cond_if):
            txt = expr_str(d)[:80]
            kind = None
            calls = [x for x in walk_nodes(d) if x["k"] == "CallExpr"]
            refs = {x["name"] for x in declrefs(d)}
            if calls and calls[0].get("callee") == "fd_in_set" and d["k"] == "CallExpr" and expr_str(strip(calls[0]["c"][1])) == var:
                kind = "keep list"
            elif not calls and var in refs and d["k"] == "BinaryOperator" and d["op"] == "==":
                # `loop variable == an end of the error pipe` (judged on the abstract values, not the names)
                kind = "error pipe" if pipe_cmp.get(d["id"]) else None
            excuses.append((txt, kind))
    ctx.ob("C11.X2b", "process_fork: close-all loop skips", "a visited descriptor is skipped only because it is one of the error pipe ends "
           "or a member of the keep list", all(k for t, k in excuses) and any(k == "keep list" for t, k in excuses), {"continue_conditions": excuses})
    # the close is conditional only on "is it open": if (fcntl(i, F_GETFD) >= 0) close
    closes = [x for x in walk_nodes(body) if x["k"] == "CallExpr" and x.get("callee") in ("handle_destroy", "close")]
    guard_ok = False
    gtxt = None
    if len(closes) == 1:
        guards = [a for a in F.ancestors(closes[0]) if a["k"] == "IfStmt" and a["id"] in {y["id"] for y in walk_nodes(body)}]
        if len(guards) == 1:
            g = strip(F.nodes[guards[0]["cond"]])
            gtxt = expr_str(g)
            # r >= 0 where r = fcntl(i, F_GETFD)
            is_probe = lambda c0: c0.get("callee") == "fcntl" and expr_str(strip(c0["c"][1])) == var and const_of(prog, c0["c"][2]) == 1
            nonneg_test = g["k"] == "BinaryOperator" and ((g["op"] == ">=" and const_of(prog, g["c"][1]) == 0) or
                                                          (g["op"] in ("!=", ">") and const_of(prog, g["c"][1]) == -1))
            if nonneg_test and is_probe(strip(g["c"][0])):
                guard_ok = True         # if (fcntl(i, F_GETFD) >= 0) close(i)
            elif nonneg_test:
                rv = expr_str(strip(g["c"][0]))
                for y in walk_nodes(body):
                    if y["k"] == "BinaryOperator" and y["op"] == "=" and expr_str(strip(y["c"][0])) == rv:
                        c0 = strip(y["c"][1])
                        if c0.get("callee") == "fcntl" and expr_str(strip(c0["c"][1])) == var and const_of(prog, c0["c"][2]) == 1:
                            guard_ok = True
        arg_ok = expr_str(strip(closes[0]["c"][1])) == var
    else:
        arg_ok = False
    ctx.ob("C11.X2c", "process_fork: close-all loop body", "every other visited descriptor that is open (fcntl(i, F_GETFD) >= 0 and nothing "
           "else) is closed", guard_ok and arg_ok, {"guard": gtxt, "closes": [expr_str(x) for x in closes]}, nontrivial=True)
    ctx.ob("C11.X2l", "process_fork: descriptor limit", "the limit that bounds the close-all loop is read in the child, after fork: a value "
           "sampled in the parent is stale as soon as another thread raises the limit and opens a descriptor above it before the "
           "fork, and that descriptor would survive", bool(limit_sides) and {x[0] for x in limit_sides} == {"child"},
           {"read_at": sorted("%s: %s" % (a, b) for a, b in limit_sides)}, nontrivial=True)
    ctx.ob("C11.X2d", "process_fork: close-all loop (all paths)", "abstract interpretation of the loop: iterations end either with the "
           "descriptor closed or skipped (skips are classified by X2b/X2c)", verdicts.get("closed", 0) > 0, {k: (sorted(v) if isinstance(v, set) else v) for k, v in verdicts.items()},
           nontrivial=True)
    # --- keep list
    P = prog.fn("process_start")
    lists = [x for x in P.walk() if x["k"] == "VarDecl" and x["name"] == "except" and x.get("c")]
    items = []
    if lists:
        il = strip(lists[0]["c"][0])
        items = sorted(expr_str(strip(c)) for c in il.get("c", []))
    want = sorted(["options.handle.in", "options.handle.out", "options.handle.err", "pipe.read", "pipe.write", "options.handle.exit"])
    ctx.ob("C11.X2k", "process_start: keep list", "the descriptors spared by the close-all loop are exactly the three stream handles, the "
           "two error pipe ends and the exit handle", items == want, {"keep_list": items})
    fk = [n for n in P.calls("process_fork")]
    ctx.ob("C11.X2k", "process_start: process_fork(except, n)", "the whole keep list is passed (count = number of elements)",
           len(fk) == 1 and expr_str(strip(fk[0]["c"][1])) == "except" and "sizeof" in expr_str(fk[0]["c"][2]), {"call": expr_str(fk[0]) if fk else None})


def limit_rule(ctx, prog):
    """X2s: every path of get_max_fd that reports a limit has asked the OS (getrlimit) on this very call; nothing is remembered"""
    G = prog.fn("get_max_fd")
    I = new_interp(prog)

    def asked_hook(I_, fn, n, name, args, st):
        if name == "getrlimit":
            s2 = st.copy()
            s2.mon["asked"] = True
            return s2
        return None
    I.hooks_call.append(asked_hook)
    res = I.run(G, [State()])
    ctx.stats("E-ABS", I.stats)
    statics = [v for v in prog.vars if v.get("func") == "get_max_fd" and v["scope"] == "local" and not v.get("extern")]
    unasked = [ret_site(G, s)[0] for s, rv in res.exits if may_nonneg(rv) and not s.mon.get("asked")]
    n_ok = len([1 for s, rv in res.exits if may_nonneg(rv) and s.mon.get("asked")])
    ctx.ob("C11.X2s", "get_max_fd", "the descriptor limit is read from the OS on every call (getrlimit) and not remembered in a static, so a "
           "limit raised later is honoured", not unasked and not statics and n_ok >= 1,
           {"limit_returned_without_asking_at": unasked[:3], "statics": [v["name"] for v in statics]}, nontrivial=True)


def enclosing_ifs(F, n):
    return [a for a in F.ancestors(n) if a["k"] in ("IfStmt", "ConditionalOperator")]


def fork_mode_rule(ctx, prog):
    """in fork mode nothing is exec'ed: the library-owned child ends must be closed when start returns in the child,
    otherwise the started (forked) program sees them next to 0, 1, 2 and the exit handle"""
    from .. import startpath as SP
    res, F, I, obj = SP.reproc_start_run(ctx, prog)
    ends = {}
    for e in res.events:
        if e[0] == "process_start":
            st = e[4]
            opt = e[3][2]
            if isinstance(opt, tuple) and opt[0] == "agg":
                cell = opt[1][0]
                toks = set()
                for x in ("in", "out", "err"):
                    v = st.mem.get(("f", ("f", cell, "handle"), x)) or ()
                    toks |= {a for a in v if isinstance(a, tuple) and a[0] == "fd"}
                ends[frozenset(st.res.items())] = toks
    n = 0
    bad = set()
    for st, rv in res.exits:
        if st.mon.get("proc") != "child" or rv != fs(0):
            continue
        n += 1
        # library-owned descriptors that are neither parent ends of the handle (closed by the child's close-all loop) ...
        # ... except an end whose number this path has established to be 0, 1 or 2: it is the child's standard stream itself
        low = {t for (t, o, c) in st.mon.get("fdrange", frozenset()) if (o == "<=" and c <= 2) or (o == "<" and c <= 3)}
        for k, v in st.res.items():
            if k in low:
                continue
            if k[0] == "fd" and v[0] == "open" and v[2] in ("file",):
                bad.add(str(k))
            if k[0] == "fd" and v[0] == "open" and v[2] in ("pipe-read", "pipe-write") and k in st.mon.get("child_ends", frozenset()):
                bad.add(str(k))
    ctx.ob("C11.X4f", "reproc_start [returns in the forked child]", "on the child side of a fork-mode start the library-owned child ends "
           "(files, null device, pipe ends given to the child) have been closed: the forked program sees 0, 1, 2 and the exit handle only",
           n > 0 and not bad, {"child_paths": n, "left_open": sorted(bad)[:5]}, nontrivial=True)


def exec_rules(ctx, prog):
    res, F, I, finals, nentries = T.analyse(ctx, prog)
    seen = set()
    n = 0
    for layout, mode, st, how in finals:
        if mode != "exec":
            continue
        tab = T.table_of(st)
        problems = []
        for k, (obj, cloexec) in tab.items():
            if k in (0, 1, 2):
                continue
            if k == T.H("exit"):
                if cloexec:
                    problems.append("the exit handle still has close-on-exec set (exit detection would break)")
                continue
            if cloexec is not True:
                problems.append("descriptor %s ('%s') is open at exec and close-on-exec was not set on it (flag %s)" % (k, obj, cloexec))
        n += 1
        key = (layout, tuple(problems))
        if key in seen:
            continue
        seen.add(key)
        from .c10 import lay
        ctx.ob("C11.X3", "process_start at exec [handles on %s]" % lay(layout), "everything the child still has open besides 0, 1, 2 is "
               "close-on-exec, except the exit handle whose flag has been cleared", not problems,
               {"problems": problems, "table": {str(k): v for k, v in tab.items()}}, nontrivial=True)
    ctx.floor("C11.X3", 68)


def check(ctx):
    prog = ctx.prog("posix-mt")
    birth_rules(ctx, prog)
    leaf_contract(ctx, prog)
    closeall_rules(ctx, prog)
    limit_rule(ctx, prog)
    fork_mode_rule(ctx, prog)
    exec_rules(ctx, prog)
    windows_inherit_list_rule(ctx)
