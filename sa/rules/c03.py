"""C03 - launch fidelity: argv, environment, working directory and program resolution (narrow)."""
from ..facts import AnalysisBroken, strip, expr_str
from ..absint import State, walk_nodes
from ..models import fs, ev, failed, new_mem
from ..rulelib import *
from .. import linexpr as L
from .. import summaries as S
from .. import startpath as SP

EXPLANATION = (
    "Static analysis of how argv, environment, working directory and program path travel from the options to exec (values are "
    "not enumerated; pass-through, order and buffer bounds are structural). By abstract interpretation of process_start on all "
    "paths (fork summarised): at exec the argument vector is the caller's argv pointer and the program is the private copy of "
    "argv[0] - prefixed with the parent's working directory, obtained before fork, when a working directory is requested and the "
    "program is a relative path; on every child path to exec `environ` has been replaced by strv_concat(parent environment or "
    "nothing according to the behaviour option, extra entries), and chdir(working_directory) happens in the child, before exec, "
    "iff one was given. strv_concat with symbolic arrays: deep copies, first array then second, NULL terminated, in a block "
    "sized for all of them. path_prepend_cwd: linear size comparison shows every allocation is at least getcwd capacity + "
    "strlen(path) + 1 and all writes after a successful getcwd stay inside. Not decided: byte equality for arbitrary strings, PATH search. The prefix comes from a getcwd() of this very call (P4g: no directory remembered from an earlier start). Nothing is stored into the environment array after strv_concat built it (P2m); the composed program path is written once: nothing in front of the terminator is stored to after the program path was appended (P4b).")
ASSUMPTIONS = [
    "clang 14 parser/CFG and the fact extractor are correct", "execvp passes argv and environ to the program unchanged; getcwd(buf, n) writes at most n bytes including the NUL",
    "strdup/malloc+strcpy copy the bytes of a string",
]


def exec_rules(ctx, prog):
    F = prog.fn("process_start")
    EMPTY = prog.const("REPROC_ENV_EMPTY")

    def o_strv_concat(I, fn, n, args, st):
        s, t = new_mem(I, fn, n, st)
        s.mon["concat_args"] = (args[0], args[1])
        s.mon["concat_tok"] = t
        s.mon["concat_side"] = st.mon.get("proc")
        return [(failed(st, fn, n), fs("NULL")), (s, fs(t))]

    def o_prepend(I, fn, n, args, st):
        s, t = new_mem(I, fn, n, st)
        s.mon["program_from"] = ("cwd+", args[0], st.mon.get("proc"))
        return [(failed(st, fn, n), fs("NULL")), (s, fs(t))]

    def m_strdup(I, fn, n, args, st):
        s, t = new_mem(I, fn, n, st)
        s.mon["program_from"] = ("copy", args[0], st.mon.get("proc"))
        return [(failed(st, fn, n), fs("NULL")), (s, fs(t))]

    def o_rel(I, fn, n, args, st):
        a = st.copy()
        a.mon["relative"] = False
        b = st.copy()
        b.mon["relative"] = True
        return [(a, fs(0)), (b, fs(1))]

    def m_chdir(I, fn, n, args, st):
        s = st.copy()
        s.mon["chdir"] = (args[0], st.mon.get("proc"))
        return [(failed(st, fn, n), fs(-1)), (s, fs(0))]
    ov = {"strv_concat": o_strv_concat, "strv_free": S.o_strv_free, "path_prepend_cwd": o_prepend, "path_is_relative": o_rel,
          "process_fork": S.o_process_fork}
    I = new_interp(prog, overrides=ov, extra_models={"strdup": m_strdup, "chdir": m_chdir})
    entries = []
    opt = [("v", F.gdid(p["did"])) for p in F.params if p["name"] == "options"][0]
    for st in S.process_start_entry(prog, F)[1:]:
        for beh in ("EXTEND", "EMPTY"):
            for wd in ("null", "set"):
                for extra in ("set", "null"):
                    s = st.copy()
                    s.mem[("f", ("f", opt, "env"), "behavior")] = fs(prog.const("REPROC_ENV_" + beh))
                    s.mem[("f", ("f", opt, "env"), "extra")] = fs(("str", "<extra>")) if extra == "set" else fs("NULL")
                    s.mem[("f", opt, "working_directory")] = fs(("str", "<wd>")) if wd == "set" else fs("NULL")
                    s.mon["case"] = (beh, wd, extra)
                    entries.append(s)
    events = []
    for s0 in entries:      # one run per configuration: keeps the disjunctive state sets of the 16 cases apart
        events += I.run(F, [s0]).events
    ctx.stats("E-ABS", I.stats)
    argvc = [("v", F.gdid(p["did"])) for p in F.params if p["name"] == "argv"][0]
    seen = set()
    n = 0
    for e in events:
        if e[0] != "exec":
            continue
        st = e[4]
        beh, wd, extra = st.mon["case"]
        args = e[3]
        n += 1
        key = (beh, wd, extra, st.mon.get("relative"), show(args[1]), str(st.mon.get("program_from")), str(st.mon.get("chdir")), str(st.mon.get("concat_args")))
        if key in seen:
            continue
        seen.add(key)
        case = "[env %s, extra %s, working directory %s, program %s]" % (beh.lower(), extra, wd, "relative" if st.mon.get("relative") else "not relative/unknown")
        # P1
        ctx.ob("C03.P1", "process_start: execvp " + case + " argv", "the argument vector handed to exec is the caller's argv, untouched",
               args[1] == st.mem.get(argvc) and args[1] is not None and st.mon.get("proc") == "child", {"argv": show(args[1])}, nontrivial=True)
        # P4 program
        pf = st.mon.get("program_from")
        want_prefix = wd == "set" and st.mon.get("relative") is True
        ok = pf is not None and pf[0] == ("cwd+" if want_prefix else "copy") and pf[1] == fs(("PTR",)[0]) and pf[2] is None \
            and len(args[0]) == 1 and next(iter(args[0]))[0] == "mem"
        ctx.ob("C03.P4", "process_start: execvp " + case + " program", "the program executed is a private copy of argv[0], prefixed with "
               "the parent's working directory (taken before fork) exactly when a working directory is requested and argv[0] is a "
               "relative path", ok, {"program_from": str(pf), "executed": show(args[0])}, nontrivial=True)
        # P3 chdir
        cd = st.mon.get("chdir")
        ok = (cd is None) if wd == "null" else (cd is not None and cd[0] == fs(("str", "<wd>")) and cd[1] == "child")
        ctx.ob("C03.P3", "process_start: execvp " + case + " cwd", "the child changes to the requested working directory before exec (in the "
               "child only), and does not change directory when none is given", ok, {"chdir": str(cd)}, nontrivial=True)
        # P2 environ
        ca = st.mon.get("concat_args")
        envv = st.mem.get(("g", "environ"))
        parent_env = fs("NULL") if beh == "EMPTY" else None
        ok = ca is not None and envv == fs(st.mon.get("concat_tok")) and st.mon.get("concat_side") is None \
            and ca[1] == (fs(("str", "<extra>")) if extra == "set" else fs("NULL"))
        if beh == "EMPTY":
            ok = ok and ca[0] == fs("NULL")
        else:
            ok = ok and ca[0] != fs("NULL") and any(isinstance(a, tuple) and a[0] == "addr" and "environ" in str(a) for a in ca[0])
            if extra == "null" and envv is None:
                ok = True       # extending by nothing: leaving the inherited environment in place is the same thing
        ctx.ob("C03.P2", "process_start: execvp " + case + " environment", "at exec `environ` is the array built (in the parent, before fork) "
               "from the parent's environment - or nothing, for the empty behaviour - followed by the extra entries", ok,
               {"environ": show(envv), "concat_args": [show(x) for x in ca] if ca else None}, nontrivial=True)
    if n < 4:
        raise AnalysisBroken("C03: only %d exec events" % n)
    ctx.floor("C03.P1", 4)
    # P2m: once built, the environment array is handed to the child as it is: process_start itself never writes into the block
    bad = []
    for e in events:
        if e[0] == "store-heap":
            c, st = e[3][0], e[4]
            b = cell_base(c)
            if b[0] == "heap" and b[1] == st.mon.get("concat_tok"):
                bad.append(site_of(e[1], e[2]))
    ctx.ob("C03.P2m", "process_start: environment array", "nothing is stored into the array strv_concat returned (its entries reach exec "
           "exactly as copied from the parent's environment and the extra entries)", not bad, {"stores": sorted(set(bad))[:4]}, nontrivial=True)
    # reproc_start hands its own argv on
    R = prog.fn("reproc_start")
    ps = [c for c in R.calls("process_start")]
    ctx.ob("C03.P1r", "reproc_start -> process_start", "start passes its own argv parameter on unchanged",
           len(ps) == 1 and expr_str(strip(ps[0]["c"][2])) == "argv", {"call": expr_str(ps[0])[:80] if ps else None})
    po = [x for x in R.walk() if x["k"] == "InitListExpr" and x.get("fields") == ["behavior", "extra"]]
    ok = len(po) == 1 and [expr_str(strip(c)) for c in po[0]["c"]] == ["options.env.behavior", "options.env.extra"]
    wdn = [x for x in R.walk() if x["k"] == "InitListExpr" and "working_directory" in (x.get("fields") or [])]
    ok2 = len(wdn) == 1 and expr_str(strip(wdn[0]["c"][wdn[0]["fields"].index("working_directory")])) == "options.working_directory"
    ctx.ob("C03.P2r", "reproc_start -> process_options", "environment behaviour, extra entries and working directory reach process_start "
           "under their own names", ok and ok2, None)


def strv_rules(ctx, prog):
    F = prog.fn("strv_concat")

    def o_str_dup(I, fn, n, args, st):
        src = "+".join(sorted(str(a) for a in args[0]))
        k = st.mon.get("ncopies", 0)
        t = ("mem", "copy of " + src, 0)
        s = st.copy()
        s.res[t] = ("live",)
        s.mon["ncopies"] = k + 1
        return [(failed(st, fn, n), fs("NULL")), (s, fs(t))]
    I = new_interp(prog, overrides={"str_dup": o_str_dup})
    I.widen = False
    slots = {}

    def alloc_hook(I_, fn, n, name, args, st):
        if name == "calloc" and "case" in st.mon:
            slots.setdefault(st.mon["case"], set()).add(show(args[0]))
        return None
    I.hooks_call.append(alloc_hook)
    p = {x["name"]: ("v", F.gdid(x["did"])) for x in F.params}
    A_, B_ = ("g", "array_a"), ("g", "array_b")
    cases = []
    for na, nb in ((2, 1), (0, 2), (2, 0), (0, 0)):
        for anull in ((False, True) if na == 0 else (False,)):
            st = State()
            st.mem[p["a"]] = fs("NULL") if anull else fs(("addr", ("i", A_, 0)))
            st.mem[p["b"]] = fs(("addr", ("i", B_, 0)))
            for i in range(na):
                st.mem[("i", A_, i)] = fs(("str", "a%d" % i))
            st.mem[("i", A_, na)] = fs("NULL")
            for i in range(nb):
                st.mem[("i", B_, i)] = fs(("str", "b%d" % i))
            st.mem[("i", B_, nb)] = fs("NULL")
            st.mon["case"] = (na, nb, anull)
            cases.append(st)
    res = I.run(F, cases)
    ctx.stats("E-ABS", I.stats)
    for s, rv in res.exits:
        na, nb, anull = s.mon["case"]
        if s.mon.get("failed"):
            continue
        t = next(iter(rv)) if len(rv) == 1 else None
        got = []
        if isinstance(t, tuple) and t[0] == "mem":
            i = 0
            while True:
                v = s.mem.get(("i", ("heap", t), i))
                if v is None or i > 8:
                    break
                got.append(show(v))
                if v == fs("NULL"):
                    break
                i += 1
        want = [show(fs(("mem", "copy of " + str(("str", "a%d" % i)), 0))) for i in range(na)] + \
               [show(fs(("mem", "copy of " + str(("str", "b%d" % i)), 0))) for i in range(nb)] + [show(fs("NULL"))]
        ctx.ob("C03.P2s", "strv_concat [%d parent entries%s, %d extra]" % (na, " (NULL array)" if anull else "", nb),
               "the result holds private copies of the first array's strings, then of the second array's, then the NULL terminator",
               got == want, {"result": got, "expected": want}, nontrivial=True)
    ctx.floor("C03.P2s", 4)
    stores = [e for e in res.events if e[0] == "store-global"]
    ctx.ob("C03.P2w", "strv_concat: inputs", "neither input array is written", not stores, None, nontrivial=True)
    # block size: one slot per entry of both arrays plus the terminator (the value calloc receives on the exactly unrolled runs)
    bad = {str(c): sorted(v) for c, v in slots.items() if v != {show(fs(c[0] + c[1] + 1))}}
    ctx.ob("C03.P2z", "strv_concat: allocation", "the pointer array is allocated for one slot per entry of both arrays plus the terminator",
           not bad and len(slots) >= 4, {"cases": len(slots), "wrong_slot_counts": bad}, nontrivial=True)


def fresh_cwd_rule(ctx, prog):
    """P4g: the prefix is the working directory at the time of this start: every path through path_prepend_cwd that returns a
    block has, in this very call, had getcwd() fill that block (no remembered directory from an earlier start)"""
    from ..models import m_getcwd
    F = prog.fn("path_prepend_cwd")

    def m_cwd(I, fn, n, args, st):
        outs = m_getcwd(I, fn, n, args, st)
        res = []
        for s, rv in outs:
            if rv != fs("NULL"):
                s = s.copy()
                s.mon["cwd_filled"] = rv
            res.append((s, rv))
        return res
    I = new_interp(prog, extra_models={"getcwd": m_cwd})
    st = State()
    for p in F.params:
        st.mem[("v", F.gdid(p["did"]))] = fs(("str", "<argv0>"))
    res = I.run(F, [st])
    ctx.stats("E-ABS", I.stats)
    n = 0
    seen = set()
    for s, rv in res.exits:
        if rv == fs("NULL"):
            continue
        site, node = ret_site(F, s)
        key = (site, s.mon.get("cwd_filled") == rv)
        if key in seen:
            continue
        seen.add(key)
        n += 1
        ctx.ob("C03.P4g", "path_prepend_cwd: " + site, "the block returned is one that getcwd() filled during this call - the parent's "
               "working directory as it is now, not one remembered from an earlier start", s.mon.get("cwd_filled") == rv and "NULL" not in rv,
               {"returns": show(rv), "filled_by_getcwd": show(s.mon.get("cwd_filled")) if s.mon.get("cwd_filled") else None}, nontrivial=True)
    if n == 0:
        raise AnalysisBroken("C03.P4g: path_prepend_cwd never returns a block")


def prepend_rules(ctx, prog):
    """P4b/P4w, evaluated through the code: path_prepend_cwd is abstractly interpreted with the path length fixed to a representative
    value, getcwd() failing with ERANGE zero, one or two times before it succeeds with the LONGEST directory its capacity argument
    admits (and with a one-character one), every allocation carrying its size.  Obligations: getcwd is never told a capacity above
    the block it writes to, and every store / memcpy after it lands inside the block."""
    fresh_cwd_rule(ctx, prog)
    from ..models import new_mem, with_errno
    F = prog.fn("path_prepend_cwd")
    INC = prog.const("CWD_BUF_SIZE_INCREMENT") if "CWD_BUF_SIZE_INCREMENT" in prog.consts else 4096
    P = 6
    ERANGE = 34
    problems = []
    unknown = []      # things this run could not evaluate: they withhold the verdict, they are not findings
    ncalls = {"getcwd": 0, "writes": 0}

    def size_of(st, v):
        t = one(v)
        if isinstance(t, tuple) and t[0] == "addr" and t[1][0] == "i" and t[1][1][0] == "heap":
            return st.res.get(("size", t[1][1][1])), t[1][2], t[1][1][1]
        if isinstance(t, tuple) and t[0] == "mem":
            return st.res.get(("size", t)), 0, t
        return None, None, None

    def m_alloc(I, fn, n, args, st):
        s2, t = new_mem(I, fn, n, st)
        if n.get("callee") == "calloc":
            a, b_ = one(args[0]), one(args[1])
            sz = a * b_ if isinstance(a, int) and isinstance(b_, int) else None
        elif n.get("callee") == "realloc":
            sz = one(args[1]) if isinstance(one(args[1]), int) else None
            for a_ in args[0]:
                if isinstance(a_, tuple) and a_[0] == "mem":
                    s2.res[a_] = ("moved",)
        else:
            sz = one(args[0]) if isinstance(one(args[0]), int) else None
        if sz is None:
            unknown.append("allocation of a size this analysis cannot evaluate at %s" % site_of(fn, n))
        s2.res[("size", t)] = sz
        return [(failed(st, fn, n), fs("NULL")), (s2, fs(t))]

    def m_getcwd(I, fn, n, args, st):
        ncalls["getcwd"] += 1
        cap = one(args[1])
        size, off, tok = size_of(st, args[0])
        if not isinstance(cap, int) or size is None or off != 0:
            unknown.append("getcwd(%s, %s): block or capacity not evaluable" % (show(args[0])[:40], show(args[1])))
        elif cap > size:
            problems.append("getcwd is given capacity %d for a block of %d bytes (%s)" % (cap, size, site_of(fn, n)))
        outs = [(with_errno(failed(st, fn, n), fs(I.abs_int(13))), fs("NULL"))]
        if st.mon.get("eranges", 0) < 2:
            s1 = with_errno(st, fs(I.abs_int(ERANGE)))
            s1.mon["eranges"] = st.mon.get("eranges", 0) + 1
            outs.append((s1, fs("NULL")))
        if isinstance(cap, int):
            for w in sorted({cap - 1, 1}):
                s2 = st.copy()
                s2.mon["cwdlen"] = w
                s2.mon["cwd_filled"] = args[0]
                outs.append((s2, args[0]))
        return outs

    ARGV0 = fs(("addr", ("i", ("g", "argv0 bytes"), 0)))

    def m_strlen(I, fn, n, args, st):
        if args[0] == ARGV0:
            return [(st, fs(P))]
        if "cwdlen" in st.mon:
            return [(st, fs(I.abs_int(st.mon["cwdlen"])))]
        return [(st, I.nonneg())]

    def m_memcpy(I, fn, n, args, st):
        ncalls["writes"] += 1
        size, off, tok = size_of(st, args[0])
        ln = one(args[2])
        if size is None or not isinstance(off, int) or not isinstance(ln, int):
            unknown.append("memcpy(%s, .., %s): destination or length not evaluable" % (show(args[0])[:60], show(args[2])))
        elif off + ln > size:
            problems.append("memcpy writes bytes %d..%d of a block of %d bytes (%s)" % (off, off + ln - 1, size, site_of(fn, n)))
        if args[1] != ARGV0 or ln != P:
            problems.append("what is appended is not the whole program path as given (source %s, %s bytes instead of the path's %d) (%s)"
                            % (show(args[1])[:50], show(args[2]), P, site_of(fn, n)))
        elif isinstance(off, int):
            s2 = st.copy()
            s2.mon["composed_upto"] = (tok, off + P)       # directory, separator and program path are in place up to here
            return [(s2, args[0])]
        return [(st, args[0])]

    def m_memmove(I, fn, n, args, st):
        size, off, tok = size_of(st, args[0])
        done = st.mon.get("composed_upto")
        if done and tok == done[0]:
            problems.append("the composed path is rewritten in place after the program path was appended (%s)" % site_of(fn, n))
        return [(st, args[0])]

    def store_hook(I, fn, node, cell, val, st):
        if cell[0] == "i" and cell[1][0] == "heap":
            ncalls["writes"] += 1
            size = st.res.get(("size", cell[1][1]))
            if not isinstance(cell[2], int) or size is None:
                unknown.append("store to element %s of a block: index not evaluable (%s)" % (cell[2], site_of(fn, node)))
            elif not (0 <= cell[2] < size):
                problems.append("store to byte %d of a block of %d bytes (%s)" % (cell[2], size, site_of(fn, node)))
            done = st.mon.get("composed_upto")
            if done and cell[1][1] == done[0] and (not isinstance(cell[2], int) or cell[2] < done[1]):
                # what exec gets is <cwd>/<argv[0]> exactly as composed: only the terminator is still to be written, behind it
                problems.append("byte %s of the composed path is overwritten after the program path was appended (%s)" % (cell[2], site_of(fn, node)))
        return None
    I = new_interp(prog, extra_models={"calloc": m_alloc, "malloc": m_alloc, "realloc": m_alloc, "getcwd": m_getcwd, "strlen": m_strlen,
                                       "memcpy": m_memcpy, "memmove": m_memmove})
    I.widen = False
    I.hooks_store.append(store_hook)
    ks = {P, ERANGE, 13, 1, 2}
    for k in range(1, 5):
        for d in range(-2, P + 4):
            ks.add(k * INC + d)
            ks.add(k * INC + P + d)
    I.K = sorted(set(I.K) | {x for x in ks if x >= 0})
    I.Kset = set(I.K)
    I.TOP_INT = frozenset(I.K) | {"NEG", "POS"}
    st = State()
    for p_ in F.params:
        st.mem[("v", F.gdid(p_["did"]))] = ARGV0        # a pointer to the first byte of the path: stepping it forward is visible
    try:
        res = I.run(F, [st])
    except AnalysisBroken as e:
        if not problems:
            raise
        # what was established before the run ran out of precision stands
        ctx.ob("C03.P4b", "path_prepend_cwd: buffer sizes and contents", "the path handed to exec is the working directory, a separator and "
               "the program path as given, each written once inside the block", False,
               {"problems": sorted(set(problems))[:5], "analysis_stopped_early": str(e)[:120]}, nontrivial=True)
        return
    ctx.stats("E-ABS", I.stats)
    oks = [s_ for s_, rv in res.exits if rv != fs("NULL")]
    if unknown and not problems:
        ctx.floor_failures.append("C03.P4b: %s; the buffer arithmetic of path_prepend_cwd could not be followed, no verdict" % sorted(set(unknown))[0])
        return
    ctx.ob("C03.P4b", "path_prepend_cwd: buffer sizes", "with the program path %d bytes long and getcwd() succeeding at once or after one or two "
           "growth steps - each time with the longest directory its capacity admits, and with a one-character one - getcwd is never told a "
           "capacity above the block it fills, and the separator, the copied path and the terminator all land inside the block" % P,
           not problems and ncalls["getcwd"] >= 3 and ncalls["writes"] >= 3 and len(oks) >= 3,
           {"problems": sorted(set(problems))[:5], "getcwd_calls": ncalls["getcwd"], "writes_checked": ncalls["writes"], "successful_paths": len(oks)},
           nontrivial=True)


def one(v):
    return next(iter(v)) if v is not None and len(v) == 1 else None


def mul(a, b):
    if a is None or b is None:
        return None
    if set(b) <= {1}:
        return L.scale(a, b.get(1, 0))
    if set(a) <= {1}:
        return L.scale(b, a.get(1, 0))
    return None


def check(ctx):
    prog = ctx.prog("posix-mt")
    exec_rules(ctx, prog)
    strv_rules(ctx, prog)
    prepend_rules(ctx, prog)
