"""C03 - launch fidelity: argv, environment, working directory and program resolution (narrow)."""
from ..facts import AnalysisBroken, strip, expr_str
from ..absint import State, walk_nodes
from ..models import fs, ev, failed, new_mem
from ..rulelib import *
from .. import linexpr as L
from .. import summaries as S
from .. import startpath as SP

EXPLANATION = (
    "Static analysis of how argv, environment, working directory and program path travel from the options to exec (values are "
    "not enumerated; pass-through, order and buffer bounds are structural). By abstract interpretation of process_start on all "
    "paths (fork summarised): at exec the argument vector is the caller's argv pointer and the program is the private copy of "
    "argv[0] - prefixed with the parent's working directory, obtained before fork, when a working directory is requested and the "
    "program is a relative path; on every child path to exec `environ` has been replaced by strv_concat(parent environment or "
    "nothing according to the behaviour option, extra entries), and chdir(working_directory) happens in the child, before exec, "
    "iff one was given. strv_concat with symbolic arrays: deep copies, first array then second, NULL terminated, in a block "
    "sized for all of them. path_prepend_cwd: linear size comparison shows every allocation is at least getcwd capacity + "
    "strlen(path) + 1 and all writes after a successful getcwd stay inside. Not decided: byte equality for arbitrary strings, PATH search. The prefix comes from a getcwd() of this very call (P4g: no directory remembered from an earlier start).")
ASSUMPTIONS = [
    "clang 14 parser/CFG and the fact extractor are correct", "execvp passes argv and environ to the program unchanged; getcwd(buf, n) writes at most n bytes including the NUL",
    "strdup/malloc+strcpy copy the bytes of a string",
]


def exec_rules(ctx, prog):
    F = prog.fn("process_start")
    EMPTY = prog.const("REPROC_ENV_EMPTY")

    def o_strv_concat(I, fn, n, args, st):
        s, t = new_mem(I, fn, n, st)
        s.mon["concat_args"] = (args[0], args[1])
        s.mon["concat_tok"] = t
        s.mon["concat_side"] = st.mon.get("proc")
        return [(failed(st, fn, n), fs("NULL")), (s, fs(t))]

    def o_prepend(I, fn, n, args, st):
        s, t = new_mem(I, fn, n, st)
        s.mon["program_from"] = ("cwd+", args[0], st.mon.get("proc"))
        return [(failed(st, fn, n), fs("NULL")), (s, fs(t))]

    def m_strdup(I, fn, n, args, st):
        s, t = new_mem(I, fn, n, st)
        s.mon["program_from"] = ("copy", args[0], st.mon.get("proc"))
        return [(failed(st, fn, n), fs("NULL")), (s, fs(t))]

    def o_rel(I, fn, n, args, st):
        a = st.copy()
        a.mon["relative"] = False
        b = st.copy()
        b.mon["relative"] = True
        return [(a, fs(0)), (b, fs(1))]

    def m_chdir(I, fn, n, args, st):
        s = st.copy()
        s.mon["chdir"] = (args[0], st.mon.get("proc"))
        return [(failed(st, fn, n), fs(-1)), (s, fs(0))]
    ov = {"strv_concat": o_strv_concat, "strv_free": S.o_strv_free, "path_prepend_cwd": o_prepend, "path_is_relative": o_rel,
          "process_fork": S.o_process_fork}
    I = new_interp(prog, overrides=ov, extra_models={"strdup": m_strdup, "chdir": m_chdir})
    entries = []
    opt = [("v", F.gdid(p["did"])) for p in F.params if p["name"] == "options"][0]
    for st in S.process_start_entry(prog, F)[1:]:
        for beh in ("EXTEND", "EMPTY"):
            for wd in ("null", "set"):
                for extra in ("set", "null"):
                    s = st.copy()
                    s.mem[("f", ("f", opt, "env"), "behavior")] = fs(prog.const("REPROC_ENV_" + beh))
                    s.mem[("f", ("f", opt, "env"), "extra")] = fs(("str", "<extra>")) if extra == "set" else fs("NULL")
                    s.mem[("f", opt, "working_directory")] = fs(("str", "<wd>")) if wd == "set" else fs("NULL")
                    s.mon["case"] = (beh, wd, extra)
                    entries.append(s)
    events = []
    for s0 in entries:      # one run per configuration: keeps the disjunctive state sets of the 16 cases apart
        events += I.run(F, [s0]).events
    ctx.stats("E-ABS", I.stats)
    argvc = [("v", F.gdid(p["did"])) for p in F.params if p["name"] == "argv"][0]
    seen = set()
    n = 0
    for e in events:
        if e[0] != "exec":
            continue
        st = e[4]
        beh, wd, extra = st.mon["case"]
        args = e[3]
        n += 1
        key = (beh, wd, extra, st.mon.get("relative"), show(args[1]), str(st.mon.get("program_from")), str(st.mon.get("chdir")), str(st.mon.get("concat_args")))
        if key in seen:
            continue
        seen.add(key)
        case = "[env %s, extra %s, working directory %s, program %s]" % (beh.lower(), extra, wd, "relative" if st.mon.get("relative") else "not relative/unknown")
        # P1
        ctx.ob("C03.P1", "process_start: execvp " + case + " argv", "the argument vector handed to exec is the caller's argv, untouched",
               args[1] == st.mem.get(argvc) and args[1] is not None and st.mon.get("proc") == "child", {"argv": show(args[1])}, nontrivial=True)
        # P4 program
        pf = st.mon.get("program_from")
        want_prefix = wd == "set" and st.mon.get("relative") is True
        ok = pf is not None and pf[0] == ("cwd+" if want_prefix else "copy") and pf[1] == fs(("PTR",)[0]) and pf[2] is None \
            and len(args[0]) == 1 and next(iter(args[0]))[0] == "mem"
        ctx.ob("C03.P4", "process_start: execvp " + case + " program", "the program executed is a private copy of argv[0], prefixed with "
               "the parent's working directory (taken before fork) exactly when a working directory is requested and argv[0] is a "
               "relative path", ok, {"program_from": str(pf), "executed": show(args[0])}, nontrivial=True)
        # P3 chdir
        cd = st.mon.get("chdir")
        ok = (cd is None) if wd == "null" else (cd is not None and cd[0] == fs(("str", "<wd>")) and cd[1] == "child")
        ctx.ob("C03.P3", "process_start: execvp " + case + " cwd", "the child changes to the requested working directory before exec (in the "
               "child only), and does not change directory when none is given", ok, {"chdir": str(cd)}, nontrivial=True)
        # P2 environ
        ca = st.mon.get("concat_args")
        envv = st.mem.get(("g", "environ"))
        parent_env = fs("NULL") if beh == "EMPTY" else None
        ok = ca is not None and envv == fs(st.mon.get("concat_tok")) and st.mon.get("concat_side") is None \
            and ca[1] == (fs(("str", "<extra>")) if extra == "set" else fs("NULL"))
        if beh == "EMPTY":
            ok = ok and ca[0] == fs("NULL")
        else:
            ok = ok and ca[0] != fs("NULL") and any(isinstance(a, tuple) and a[0] == "addr" and "environ" in str(a) for a in ca[0])
            if extra == "null" and envv is None:
                ok = True       # extending by nothing: leaving the inherited environment in place is the same thing
        ctx.ob("C03.P2", "process_start: execvp " + case + " environment", "at exec `environ` is the array built (in the parent, before fork) "
               "from the parent's environment - or nothing, for the empty behaviour - followed by the extra entries", ok,
               {"environ": show(envv), "concat_args": [show(x) for x in ca] if ca else None}, nontrivial=True)
    if n < 4:
        raise AnalysisBroken("C03: only %d exec events" % n)
    ctx.floor("C03.P1", 4)
    # reproc_start hands its own argv on
    R = prog.fn("reproc_start")
    ps = [c for c in R.calls("process_start")]
    ctx.ob("C03.P1r", "reproc_start -> process_start", "start passes its own argv parameter on unchanged",
           len(ps) == 1 and expr_str(strip(ps[0]["c"][2])) == "argv", {"call": expr_str(ps[0])[:80] if ps else None})
    po = [x for x in R.walk() if x["k"] == "InitListExpr" and x.get("fields") == ["behavior", "extra"]]
    ok = len(po) == 1 and [expr_str(strip(c)) for c in po[0]["c"]] == ["options.env.behavior", "options.env.extra"]
    wdn = [x for x in R.walk() if x["k"] == "InitListExpr" and "working_directory" in (x.get("fields") or [])]
    ok2 = len(wdn) == 1 and expr_str(strip(wdn[0]["c"][wdn[0]["fields"].index("working_directory")])) == "options.working_directory"
    ctx.ob("C03.P2r", "reproc_start -> process_options", "environment behaviour, extra entries and working directory reach process_start "
           "under their own names", ok and ok2, None)


def strv_rules(ctx, prog):
    F = prog.fn("strv_concat")

    def o_str_dup(I, fn, n, args, st):
        src = "+".join(sorted(str(a) for a in args[0]))
        k = st.mon.get("ncopies", 0)
        t = ("mem", "copy of " + src, 0)
        s = st.copy()
        s.res[t] = ("live",)
        s.mon["ncopies"] = k + 1
        return [(failed(st, fn, n), fs("NULL")), (s, fs(t))]
    I = new_interp(prog, overrides={"str_dup": o_str_dup})
    I.widen = False
    p = {x["name"]: ("v", F.gdid(x["did"])) for x in F.params}
    A_, B_ = ("g", "array_a"), ("g", "array_b")
    cases = []
    for na, nb in ((2, 1), (0, 2), (2, 0), (0, 0)):
        for anull in ((False, True) if na == 0 else (False,)):
            st = State()
            st.mem[p["a"]] = fs("NULL") if anull else fs(("addr", ("i", A_, 0)))
            st.mem[p["b"]] = fs(("addr", ("i", B_, 0)))
            for i in range(na):
                st.mem[("i", A_, i)] = fs(("str", "a%d" % i))
            st.mem[("i", A_, na)] = fs("NULL")
            for i in range(nb):
                st.mem[("i", B_, i)] = fs(("str", "b%d" % i))
            st.mem[("i", B_, nb)] = fs("NULL")
            st.mon["case"] = (na, nb, anull)
            cases.append(st)
    res = I.run(F, cases)
    ctx.stats("E-ABS", I.stats)
    for s, rv in res.exits:
        na, nb, anull = s.mon["case"]
        if s.mon.get("failed"):
            continue
        t = next(iter(rv)) if len(rv) == 1 else None
        got = []
        if isinstance(t, tuple) and t[0] == "mem":
            i = 0
            while True:
                v = s.mem.get(("i", ("heap", t), i))
                if v is None or i > 8:
                    break
                got.append(show(v))
                if v == fs("NULL"):
                    break
                i += 1
        want = [show(fs(("mem", "copy of " + str(("str", "a%d" % i)), 0))) for i in range(na)] + \
               [show(fs(("mem", "copy of " + str(("str", "b%d" % i)), 0))) for i in range(nb)] + [show(fs("NULL"))]
        ctx.ob("C03.P2s", "strv_concat [%d parent entries%s, %d extra]" % (na, " (NULL array)" if anull else "", nb),
               "the result holds private copies of the first array's strings, then of the second array's, then the NULL terminator",
               got == want, {"result": got, "expected": want}, nontrivial=True)
    ctx.floor("C03.P2s", 4)
    stores = [e for e in res.events if e[0] == "store-global"]
    ctx.ob("C03.P2w", "strv_concat: inputs", "neither input array is written", not stores, None, nontrivial=True)
    # block size: size counts one per element of a, one per element of b, plus one
    cal = [n for n in F.calls("calloc")]
    szvar = expr_str(strip(cal[0]["c"][1])) if cal else None
    incs = [x for x in F.walk() if x["k"] == "UnaryOperator" and x["op"] == "++" and expr_str(strip(x["c"][0])) == szvar]
    init = [x for x in F.walk() if x["k"] == "VarDecl" and x["name"] == szvar]
    loops = [enclosing_loops(F, x) for x in incs]
    ctx.ob("C03.P2z", "strv_concat: allocation", "the pointer array is allocated for one slot per entry of both arrays plus the terminator",
           len(incs) == 2 and all(len(l) == 1 for l in loops) and init and const_of(prog, init[0]["c"][0]) == 1,
           {"size_var": szvar, "increments": len(incs)})


def fresh_cwd_rule(ctx, prog):
    """P4g: the prefix is the working directory at the time of this start: every path through path_prepend_cwd that returns a
    block has, in this very call, had getcwd() fill that block (no remembered directory from an earlier start)"""
    from ..models import m_getcwd
    F = prog.fn("path_prepend_cwd")

    def m_cwd(I, fn, n, args, st):
        outs = m_getcwd(I, fn, n, args, st)
        res = []
        for s, rv in outs:
            if rv != fs("NULL"):
                s = s.copy()
                s.mon["cwd_filled"] = rv
            res.append((s, rv))
        return res
    I = new_interp(prog, extra_models={"getcwd": m_cwd})
    st = State()
    for p in F.params:
        st.mem[("v", F.gdid(p["did"]))] = fs(("str", "<argv0>"))
    res = I.run(F, [st])
    ctx.stats("E-ABS", I.stats)
    n = 0
    seen = set()
    for s, rv in res.exits:
        if rv == fs("NULL"):
            continue
        site, node = ret_site(F, s)
        key = (site, s.mon.get("cwd_filled") == rv)
        if key in seen:
            continue
        seen.add(key)
        n += 1
        ctx.ob("C03.P4g", "path_prepend_cwd: " + site, "the block returned is one that getcwd() filled during this call - the parent's "
               "working directory as it is now, not one remembered from an earlier start", s.mon.get("cwd_filled") == rv and "NULL" not in rv,
               {"returns": show(rv), "filled_by_getcwd": show(s.mon.get("cwd_filled")) if s.mon.get("cwd_filled") else None}, nontrivial=True)
    if n == 0:
        raise AnalysisBroken("C03.P4g: path_prepend_cwd never returns a block")


def prepend_rules(ctx, prog):
    """P4 buffer bounds in path_prepend_cwd, by linear forms over {path_size, cwd_size (capacity), strlen}"""
    fresh_cwd_rule(ctx, prog)
    F = prog.fn("path_prepend_cwd")
    order = sorted((n for n in F.walk()), key=lambda n: n["id"])
    env = {}
    alloc = None
    checks = []
    INC = None
    cap_at_success = None
    for n in order:
        k = n["k"]
        if k == "VarDecl" and n.get("c"):
            init = strip(n["c"][0])
            if init["k"] == "CallExpr" and init.get("callee") in ("calloc", "malloc"):
                a = init["c"][1:]
                alloc = L.lin(a[0], env) if init["callee"] == "malloc" else mul(L.lin(a[0], env), L.lin(a[1], env))
            elif init["k"] == "CallExpr" and init.get("callee") == "realloc":
                new_alloc = L.lin(init["c"][2], env)
                checks.append(("realloc", n["l"][0], new_alloc, dict(env)))
                alloc = new_alloc
            elif init["k"] == "CallExpr" and init.get("callee") == "strlen":
                env[n["name"]] = {n["name"]: 1}
            else:
                f = L.lin(init, env)
                if f is not None:
                    env[n["name"]] = f
        elif k == "CallExpr" and n.get("callee") == "getcwd":
            cap = L.lin(n["c"][2], env)
            checks.append(("getcwd", n["l"][0], cap, alloc))
        elif k == "CompoundAssignOperator" and n["op"] == "+=":
            v = expr_str(strip(n["c"][0]))
            d = L.lin(n["c"][1], env)
            if v in env and d is not None:
                env[v] = L.add(env[v], d)
        elif k == "BinaryOperator" and n["op"] == "=":
            v = expr_str(strip(n["c"][0]))
            r = strip(n["c"][1])
            if r["k"] == "CallExpr" and r.get("callee") == "strlen" and v in env:
                cap_at_success = env[v]
                env[v] = {"strlen(cwd)": 1}
    # 1. at every getcwd call (first and, symbolically, after each growth step): alloc >= capacity + path_size + 1
    getc = [c for c in checks if c[0] == "getcwd"]
    re = [c for c in checks if c[0] == "realloc"]
    need_sym = "path_size"
    ok1 = bool(getc) and getc[0][3] is not None and L.geq(getc[0][3], L.add(L.add(getc[0][2], {need_sym: 1}), {1: 1}))
    ctx.ob("C03.P4b", "path_prepend_cwd: first getcwd", "the initial block is at least getcwd's capacity + strlen(path) + 1 bytes",
           ok1, {"alloc": L.show(getc[0][3]) if getc else None, "capacity": L.show(getc[0][2]) if getc else None}, nontrivial=True)
    # growth step: new capacity is the value of the capacity variable when the loop re-evaluates getcwd; new alloc from realloc
    capvar = expr_str(strip([n for n in order if n["k"] == "CallExpr" and n.get("callee") == "getcwd"][0]["c"][2]))
    ok2 = False
    det = {}
    if re:
        new_alloc = re[0][2]
        cap_after = None
        # capacity variable at the end of the loop body = env after processing everything up to the end of the while body
        loop = [n for n in order if n["k"] == "WhileStmt"]
        if loop:
            body_ids = {x["id"] for x in walk_nodes(loop[0])}
            env2 = {capvar: {capvar: 1}, "path_size": {"path_size": 1}}
            na = None
            for n in order:
                if n["id"] not in body_ids:
                    continue
                if n["k"] == "CompoundAssignOperator" and n["op"] == "+=" and expr_str(strip(n["c"][0])) == capvar:
                    env2[capvar] = L.add(env2[capvar], L.lin(n["c"][1], env2))
                if n["k"] == "VarDecl" and n.get("c") and strip(n["c"][0]).get("callee") == "realloc":
                    na = L.lin(strip(n["c"][0])["c"][2], env2)
            cap_after = env2[capvar]
            det = {"alloc_after_growth": L.show(na), "capacity_after_growth": L.show(cap_after)}
            ok2 = na is not None and L.geq(na, L.add(L.add(cap_after, {"path_size": 1}), {1: 1}))
    ctx.ob("C03.P4b", "path_prepend_cwd: growth step", "after each growth step the block is again at least the new getcwd capacity + "
           "strlen(path) + 1 bytes (the capacity is raised before the block is re-sized to it)", ok2, det, nontrivial=True)
    # 2. writes after success: with s = strlen(cwd) <= capacity - 1, the largest index written is s + 1 + path_size <= capacity + path_size
    writes = []
    env3 = {"cwd_size": {"s": 1}, "path_size": {"path_size": 1}}
    started = False
    for n in order:
        if n["k"] == "BinaryOperator" and n["op"] == "=" and strip(n["c"][1]).get("callee") == "strlen":
            started = True
            continue
        if not started:
            continue
        if n["k"] == "BinaryOperator" and n["op"] == "=" and strip(n["c"][0])["k"] == "ArraySubscriptExpr":
            idx = L.lin(strip(n["c"][0])["c"][1], env3)
            writes.append(("store", idx))
        elif n["k"] == "UnaryOperator" and n["op"] == "++" and expr_str(strip(n["c"][0])) == "cwd_size":
            env3["cwd_size"] = L.add(env3["cwd_size"], {1: 1})
        elif n["k"] == "CallExpr" and n.get("callee") == "memcpy":
            d = strip(n["c"][1])
            off = L.lin(d["c"][1], env3) if d["k"] == "BinaryOperator" else None
            ln = L.lin(n["c"][3], env3)
            if off is not None and ln is not None:
                writes.append(("memcpy-end", L.add(L.add(off, ln), {1: -1})))
    # bound: s <= C - 1  ==> every index <= C + path_size  (< alloc by part 1)
    limit = {"C": 1, "path_size": 1}
    okw = bool(writes)
    for kind, idx in writes:
        if idx is None:
            okw = False
            continue
        sub = dict(idx)
        coef = sub.pop("s", 0)
        worst = L.add(sub, L.scale({"C": 1, 1: -1}, coef))
        if not L.geq(limit, worst):
            okw = False
    ctx.ob("C03.P4w", "path_prepend_cwd: writes after getcwd", "the separator, the copied path and the terminator all land at offsets <= "
           "capacity + strlen(path), i.e. inside the block", okw and len(writes) >= 3, {"writes": [(k, L.show(i)) for k, i in writes]}, nontrivial=True)


def mul(a, b):
    if a is None or b is None:
        return None
    if set(b) <= {1}:
        return L.scale(a, b.get(1, 0))
    if set(a) <= {1}:
        return L.scale(b, a.get(1, 0))
    return None


def check(ctx):
    prog = ctx.prog("posix-mt")
    exec_rules(ctx, prog)
    strv_rules(ctx, prog)
    prepend_rules(ctx, prog)
