"""C06 - only the library's own, still-unreaped child is ever signalled or waited for."""
from ..rulelib import *
from .. import apirules as R
from .. import apimodel as A
from .. import startpath as SP
from ..models import fs

EXPLANATION = (
    "Static analysis: (1) object-invariant abstract interpretation of every exported function from every handle state: each "
    "kill()/waitpid() the library can issue has as pid argument exactly the handle's pid field, which the invariant says is the "
    "positive pid of the running, unreaped child, with SIGTERM/SIGKILL resp. options 0, and none is issued in the not-started, "
    "exited or in-child states; (2) all-paths analysis of the start path showing the 'running' state is only ever established "
    "together with the positive fork result of a child that was not reaped, on every error path (allocation failures included); "
    "(3) who-may-call scan for kill/waitpid and absence of other signalling/reaping primitives. Not decided: pid recycling by the OS. K5: the library never calls exit()/quick_exit() (a failed child must not run the application's exit handlers, which may signal and reap).")
ASSUMPTIONS = [
    "clang 14 parser/CFG and the fact extractor are correct", "libc models in sa/models.py (fork returns <0, 0 or the positive child pid)",
    "a child reaped behind the library's back (waitpid -> ECHILD) is outside the library's control",
]


def check(ctx):
    prog = ctx.prog("posix-mt")
    R.c06_targets(ctx, prog)
    # signals and reaps come from the process that started the child only: the failed child of a start never runs the application's
    # exit handlers (which may stop other handles)
    child_exit_rule(ctx, prog, "C06.K5")
    # K3: running => pid is the positive fork result of an unreaped child, on every path of start
    SP.fork_run(ctx, prog)
    SP.verify_start_summary(ctx, prog)
    res, F, I, obj = SP.reproc_start_run(ctx, prog)
    IP = prog.const("STATUS_IN_PROGRESS")
    seen = set()
    n = 0
    for st, rv in res.exits:
        status = st.mem.get(("f", obj, "status"))
        h = st.mem.get(("f", obj, "handle"))
        if status is None or IP not in status:
            continue
        ok = A._is_pid(h) and st.res.get(next(iter(h))) == ("running",) and all_pos(h)
        key = (show(h), ok)
        if key in seen:
            continue
        seen.add(key)
        n += 1
        ctx.ob("C06.K3", "reproc_start [marks the handle running]", "whenever start marks the handle as running, the stored pid is "
               "the positive pid returned by fork for a child that has not been reaped (never 0, -1 or a stale pid)", ok,
               {"handle": show(h), "child": str(st.res.get(next(iter(h)))) if A._is_pid(h) else None, "returns": show(rv)}, nontrivial=True)
    if n < 1:
        raise AnalysisBroken("C06.K3: no path of reproc_start marks the handle running")
    # the pid field is written nowhere else
    writers = set()
    for Fn in prog.funcs_all:
        for node in Fn.nodes.values():
            if node["k"] == "BinaryOperator" and node["op"] == "=":
                fp = field_path(node["c"][0])
                if fp and fp[1] == ["handle"] and Fn.file.endswith("reproc.c"):
                    writers.add(Fn.name)
    ctx.ob("C06.K3w", "struct reproc_t.handle", "the pid field is assigned only by reproc_new and reproc_start",
           writers <= {"reproc_new", "reproc_start"}, {"writers": sorted(writers)})
