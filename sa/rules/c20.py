"""C20 - documented thread-safety: distinct operations and distinct children race-free (narrow)."""
from ..facts import AnalysisBroken, strip, expr_str
from ..absint import State, walk_nodes, cell_base
from ..models import fs
from ..rulelib import *
from .. import apimodel as A
from .. import apirules as R
from . import c11, c12

EXPLANATION = (
    "Static analysis (interleavings themselves are not explored; races inside libc or the kernel are not decided). Decided, as a "
    "sound argument for 'no data race inside the library' for the documented pairs: (H1) the library has no shared mutable state "
    "outside the handle: every file-scope object is const with a constant initialiser, every function-local static is "
    "thread-local (the error string buffer), and the only foreign global touched, environ, is read in the parent and written only "
    "on the child side of fork; (H2) the sets of handle fields written by reproc_read (from the all-paths store events of the "
    "object-invariant analysis, through callees and pointer aliases) and by reproc_write are disjoint from everything the other "
    "one reads or writes, and neither writes the status; (H3) with REPROC_MULTITHREADED the signal mask is manipulated with the "
    "per-thread primitive only; (H4) no non-reentrant libc function is called; (H5) a child closes every foreign descriptor "
    "(shared with C11), so a sibling started concurrently never keeps another child's pipe end open and end-of-file still "
    "propagates. Every reap and signal on the start path targets the pid fork() just returned to that call - never 0 or -1 (H7p).")
ASSUMPTIONS = [
    "clang 14 parser/CFG and the fact extractor are correct", "libc functions called are thread-safe (read, write, close, poll, fcntl, malloc, strerror_r, ...)",
    "operations on different handles share no memory other than what H1 enumerates",
]

NON_REENTRANT = ("strerror", "strtok", "getenv", "setenv", "putenv", "localtime", "gmtime", "asctime", "ctime", "rand", "srand",
                 "readdir", "getpwnam", "getpwuid", "getgrnam", "gethostbyname", "ttyname", "tmpnam", "basename", "dirname",
                 "setlocale", "signal", "strsignal", "ptsname", "crypt", "getlogin", "sigprocmask")


def globals_rule(ctx, prog):
    n = 0
    for v in prog.vars:
        if not v["file"].startswith(prog.root) or "/test/" in v["file"] or "/examples/" in v["file"]:
            continue
        if v["scope"] == "file":
            if not v.get("def"):
                continue
            n += 1
            ctx.ob("C20.H1", "%s (%s)" % (v["name"], prog.rel(v["file"])), "file-scope objects are const with a constant initialiser "
                   "(no shared mutable state)", v["const"] and v.get("hasinit") , {"type": v["t"], "const": v["const"]})
        else:
            if v.get("extern"):
                ctx.ob("C20.H1e", "%s in %s" % (v["name"], v.get("func")), "the only foreign global referenced is environ",
                       v["name"] == "environ", {"type": v["t"]})
                continue
            n += 1
            ctx.ob("C20.H1", "static %s in %s()" % (v["name"], v.get("func")), "function-local statics are thread-local (or const)",
                   v["tls"] or v["const"], {"type": v["t"], "thread_local": v["tls"]})
    ctx.floor("C20.H1", 10)
    # error strings come from thread-local storage: error_string returns a TLS buffer or a string literal
    F = prog.fn("error_string")
    rets = [strip(x["c"][0]) for x in F.walk() if x["k"] == "ReturnStmt" and x.get("c")]
    ok = True
    for r in rets:
        if r["k"] == "StringLiteral":
            continue
        if r["k"] == "DeclRefExpr":
            decl = [v for v in prog.vars if v["name"] == r["name"] and v.get("func") == "error_string"]
            ok = ok and bool(decl) and decl[0]["tls"]
        else:
            ok = False
    ctx.ob("C20.H1t", "error_string", "error strings are string literals or live in a thread-local buffer", ok and rets, {"returns": [expr_str(r)[:40] for r in rets]})


def field_sets(ctx, prog):
    """H2: W(read) disjoint from R/W(write) and vice versa"""
    W, Rd = {}, {}
    for f in ("reproc_read", "reproc_write"):
        F = prog.fn(f)
        I = new_interp(prog)
        I.log_loads = True
        res = I.run(F, A.entry_states(prog, I, F))
        ctx.stats("E-ABS", I.stats)
        w = set()
        for e in res.events:
            if e[0] == "store-heap":
                c = e[3][0]
                if cell_base(c) == A.OBJ:
                    w.add(path_of(c))
        W[f] = w
        # reads: every handle field loaded on some path from some state of the invariant
        Rd[f] = {path_of(c) for c in I.loads if cell_base(c) == A.OBJ}
    for a, b in (("reproc_read", "reproc_write"), ("reproc_write", "reproc_read")):
        clash = W[a] & (Rd[b] | W[b])
        ctx.ob("C20.H2", "%s vs %s" % (a, b), "the handle fields %s may write are disjoint from every field %s reads or writes, so the two "
               "may run concurrently on one handle" % (a, b), not clash, {"writes_of_" + a: sorted(W[a]), "touched_by_" + b: sorted(Rd[b] | W[b]),
                                                                       "clash": sorted(clash)}, nontrivial=True)
        ctx.ob("C20.H2s", "%s: status" % a, "%s never writes the status" % a, "status" not in W[a], None, nontrivial=True)
    if not W["reproc_read"] or not W["reproc_write"]:
        raise AnalysisBroken("C20.H2: no field writes observed (expected the sticky close of the pipe fields)")


def path_of(c):
    p = []
    while c[0] in ("f", "i"):
        p.append(str(c[2]))
        c = c[1]
    return ".".join(reversed(p))


def mentioned_fields(prog, fname, depth=0, seen=None):
    """handle fields mentioned in fname and in internal callees that receive the handle or the address of a field"""
    seen = seen if seen is not None else set()
    if fname in seen or fname not in prog.funcs:
        return set()
    seen.add(fname)
    F = prog.funcs[fname]
    out = set()
    rec = prog.records.get("reproc_t")
    for n in F.walk():
        if n["k"] == "MemberExpr":
            fp = field_path(n)
            if fp and fp[1] and is_handle_expr(F, n):
                out.add(".".join(x for x in fp[1] if not x.startswith("[")))
    for n in F.walk():
        if n["k"] == "CallExpr" and n.get("callee") in prog.funcs and n["callee"] != fname:
            G = prog.funcs[n["callee"]]
            if any(p["t"].startswith("reproc_t") or "reproc_event_source" in p["t"] for p in G.params):
                out |= mentioned_fields(prog, n["callee"], depth + 1, seen)
    # drop prefixes that are only containers (pipe, child) when a more specific path exists
    return {x for x in out if not any(y.startswith(x + ".") for y in out)}


def is_handle_expr(F, n):
    b = n
    while b["k"] == "MemberExpr":
        b = strip(b["c"][0])
    if b["k"] == "DeclRefExpr":
        t = b.get("t", "")
        return "reproc_t" in t
    if b["k"] == "UnaryOperator" and b["op"] == "*":
        return "reproc_t" in strip(b["c"][0]).get("t", "")
    return False


def reentrancy(ctx, prog):
    bad = []
    for name in NON_REENTRANT:
        if name == "sigprocmask":
            continue
        for F, n in callsites(prog, name):
            bad.append(site_of(F, n))
    ctx.ob("C20.H4", "libc deny-list", "no non-reentrant libc function (strerror, strtok, getenv, localtime, rand, readdir, signal, ...) "
           "is called anywhere in the library", not bad, {"calls": bad})
    ok = [F.name for F, n in callsites(prog, "strerror_r")] + [F.name for F, n in callsites(prog, "__xpg_strerror_r")]
    ctx.ob("C20.H4r", "error_string", "the reentrant strerror_r is what formats error strings", set(ok) == {"error_string"}, {"callers": ok})
    sp = [site_of(F, n) for F, n in callsites(prog, "sigprocmask")]
    ctx.ob("C20.H3", "signal mask primitive [REPROC_MULTITHREADED]", "in the multithreaded configuration sigprocmask (unspecified in "
           "multithreaded processes) has no call site; pthread_sigmask is used", not sp and callsites(prog, "pthread_sigmask"), {"sigprocmask": sp})


def check(ctx):
    prog = ctx.prog("posix-mt")
    globals_rule(ctx, prog)
    field_sets(ctx, prog)
    reentrancy(ctx, prog)
    # environ only written on the child side (C12.M2) and children close every foreign descriptor (C11.X2)
    c11.closeall_rules(ctx, prog)
    R.start_closure(ctx, prog, "C20.H6")     # a stale descriptor number in a handle would close another thread's descriptor later
    for name in ("wait", "wait3", "wait4", "waitid"):
        for F2, n2 in callsites(prog, name):
            ctx.ob("C20.H7", site_of(F2, n2), "children are reaped by pid only (never 'any child'), so one handle cannot steal another's status", False, None)
    for F2, n2 in callsites(prog, "waitpid"):
        a0 = strip(n2["c"][1])
        ctx.ob("C20.H7", site_of(F2, n2), "children are reaped by pid only (never 'any child'), so one handle cannot steal another's status",
               const_of(prog, a0) is None, {"pid_argument": expr_str(a0)})
    # H8: nothing ties a child to the thread that started it.  prctl(PR_SET_PDEATHSIG) is per thread on Linux: the signal is sent
    # when the *thread* that forked exits, not the process - a child started by a short-lived worker thread would be killed under
    # the threads that still use its handle.  (Deny-list of thread-affine calls; an unknown prctl option gives no verdict.)
    nlib = 0
    for F2 in prog.funcs_all:
        if not F2.file.startswith(prog.root) or "/test/" in F2.file or "/examples/" in F2.file:
            continue
        nlib += 1
        for n2 in F2.calls("prctl"):
            opt = const_of(prog, n2["c"][1]) if len(n2["c"]) > 1 else None
            if opt is None:
                ctx.floor_failures.append("C20.H8: %s: prctl with an option this check cannot evaluate, no verdict" % site_of(F2, n2))
            else:
                ctx.ob("C20.H8", site_of(F2, n2), "the library asks for no per-thread parent-death signal (PR_SET_PDEATHSIG = 1)", opt != 1,
                       {"option": opt}, nontrivial=True)
    ctx.ob("C20.H8", "library: thread-affine process controls", "no call ties a child's life to the starting thread", True,
           {"functions_scanned": nlib})
    from .. import startpath as SP
    SP.reap_target_rule(ctx, prog, "C20.H7p")      # ... and on every path of the start code the pid is the one fork() just returned
    res, F, I = c12.check_m1(ctx, "posix-mt")
    if res is not None:
        c12.check_m2(ctx, prog, res, F)
