"""C15 - destroy applies the stop policy; the default never abandons a running child."""
import itertools
from ..facts import AnalysisBroken, strip, expr_str
from ..absint import State
from ..models import fs, ev
from ..rulelib import *
from .. import apimodel as A
from .. import apirules as R
from .. import startpath as SP
from . import c07

EXPLANATION = (
    "Static analysis: reproc_destroy analysed by abstract interpretation from every handle state (object invariant), with "
    "reproc_stop as an outcome model: under the running state the stored policy is passed to reproc_stop before any descriptor "
    "is closed or the handle freed; in every other state nothing is signalled, waited for or stopped; in every state every "
    "descriptor field is closed, the handle is freed exactly once and NULL is returned; NULL is ignored. The policy and deadline "
    "used are the ones stored by a successful start (field writers + start-path analysis with symbolic policy); the default "
    "policy is wait(until deadline), terminate, wait(infinite) (exhaustive over noop/non-noop triples); the stop loop itself is "
    "checked against the contract for all 125 action triples (shared with C07); an until-deadline wait is bounded by the "
    "deadline (shared with C08); the C++ process owns the handle with reproc_destroy as deleter. Not decided: when the signal "
    "is sent in real time. The handle-invariant closure of every exported function (C14.L2) is part of this check: a failed or interrupted wait must leave the handle 'running' so that destroy still stops and reaps the child. D4: parse_options evaluated exactly for deadline 0, 1, 7, INT_MAX and the none marker; D7: the clock id of now() follows real time.")
ASSUMPTIONS = [
    "clang 14 parser/CFG and the fact extractor are correct", "libc models in sa/models.py",
    "reproc_stop behaves as C07 establishes (checked here again); reproc_wait(REPROC_DEADLINE) as C08 establishes",
]


def destroy_rules(ctx, prog):
    F = prog.fn("reproc_destroy")
    IP = prog.const("STATUS_IN_PROGRESS")

    def o_stop(I, fn, n, args, st):
        s0 = st.copy()
        s0.mon["stop_called"] = s0.mon.get("stop_called", 0) + 1
        pol = args[1]
        s0.mon["policy_ok"] = isinstance(pol, tuple) and pol[0] == "agg" and list(pol[1]) == [A.fcell("stop")] and args[0] == fs(A.OBJ_TOK)
        ev(I, "stop", fn, n, args, s0)
        a = s0.copy()             # child did not exit (timeouts expired / error)
        b = s0.copy()             # child exited and was reaped
        b.mem[A.fcell("status")] = I.nonneg()
        b.res[A.PID] = ("reaped",)
        ex = b.mem.get(A.fcell("pipe", "exit"))
        for t in ex or ():
            if isinstance(t, tuple) and t[0] == "fd":
                b.res[t] = ("closed",) + tuple(b.res[t][1:])
        b.mem[A.fcell("pipe", "exit")] = fs(prog.const("PIPE_INVALID"))
        return [(a, I.neg()), (b, I.nonneg())]
    res, F, I = A.run_api(ctx, prog, "reproc_destroy", overrides={"reproc_stop": o_stop}, tag="c15", combos="all")
    seen = set()
    for st, rv in res.exits:
        lab = st.mon.get("shape")
        sh = R.shape_of(lab)
        open_left = [k for k, v in st.res.items() if k[0] == "fd" and v[0] == "open"]
        freed = st.res.get(A.OBJ_TOK) == ("freed",)
        stopn = st.mon.get("stop_called", 0)
        key = (lab, show(rv), tuple(open_left), freed, stopn, st.mon.get("policy_ok"))
        if key in seen:
            continue
        seen.add(key)
        ok = rv == fs("NULL") and not open_left and freed and stopn == (1 if sh == "RUN" else 0) and (sh != "RUN" or st.mon.get("policy_ok"))
        ctx.ob("C15.D1", "reproc_destroy [%s]" % lab, "destroy returns NULL having closed every descriptor of the handle and freed it; it "
               "runs the stop sequence (with the policy stored in the handle) exactly when the handle is running", ok,
               {"returns": show(rv), "open": [str(x) for x in open_left], "freed": freed, "stop_calls": stopn,
                "stored_policy_passed": st.mon.get("policy_ok")}, nontrivial=True)
    ctx.floor("C15.D1", 18)
    # ordering: nothing is released before the stop sequence has run
    early = []
    for e in res.events:
        if e[0] in ("close", "free") and R.shape_of(e[4].mon.get("shape", "")) == "RUN" and not e[4].mon.get("stop_called"):
            early.append(site_of(e[1], e[2]) + " <- " + " / ".join(c[1] for c in e[6][:1]))
    ctx.ob("C15.D1o", "reproc_destroy [running]", "while the handle is running nothing is closed or freed before the stop sequence "
           "has been run", not early, {"released_before_stop": sorted(set(early))[:4]}, nontrivial=True)
    for sh in ("NS", "EXITED", "CHILD"):
        evs = R.ev_of(res, ("kill", "waitpid", "poll", "stop"), sh)
        ctx.ob("C15.D1q", "reproc_destroy [%s]" % sh, "unless the handle is running, destroy signals nothing, waits for nothing and "
               "stops nothing", not evs, {"calls": [site_of(e[1], e[2]) for e in evs][:3]}, nontrivial=True)
    bad = R.ev_of(res, ("double-close", "double-free", "close-raw", "close-foreign", "free-nonheap"))
    ctx.ob("C15.D1d", "reproc_destroy", "destroy closes/frees nothing twice and nothing foreign", not bad,
           {"events": [(e[0], show(e[3])) for e in bad][:4]}, nontrivial=True)
    rn, Fn, In = R.null_handle(ctx, prog, "reproc_destroy")
    ctx.ob("C15.D1n", "reproc_destroy(NULL)", "destroying NULL does nothing and returns NULL",
           all(rv == fs("NULL") for st, rv in rn.exits) and not R.ev_of(rn, R.OS_EVENTS + ("stop",)) and
           not [e for e in rn.events if e[0] == "null-deref"], None, nontrivial=True)
    # real composition: destroy with the real reproc_stop from RUN (no override) leaves nothing behind either
    res2, F2, I2 = R.run(ctx, prog, "reproc_destroy")
    for st, rv in res2.exits:
        if R.shape_of(st.mon.get("shape")) != "RUN":
            continue
        open_left = [k for k, v in st.res.items() if k[0] == "fd" and v[0] == "open"]
        if open_left or st.res.get(A.OBJ_TOK) != ("freed",) or rv != fs("NULL"):
            ctx.ob("C15.D1r", "reproc_destroy [%s, real stop]" % st.mon.get("shape"), "with the real stop sequence inlined destroy still "
                   "releases everything on every path", False, {"open": [str(x) for x in open_left]}, nontrivial=True)
    ctx.ob("C15.D1r", "reproc_destroy [real stop]", "with the real stop sequence inlined destroy releases everything on every path",
           True, {"paths": len(res2.exits)}, nontrivial=True)


def policy_rules(ctx, prog):
    # D2: the policy is stored by a successful start only, and it is the parsed one
    writers = {}
    for Fn in prog.funcs_all:
        for node in Fn.nodes.values():
            if node["k"] == "BinaryOperator" and node["op"] == "=":
                fp = field_path(node["c"][0])
                if fp and fp[0] == "process" and fp[1][:1] == ["stop"]:
                    writers.setdefault(Fn.name, []).append(expr_str(node)[:70])
    ctx.ob("C15.D2w", "struct reproc_t.stop", "the stop policy of a handle is written only by reproc_start", set(writers) == {"reproc_start"},
           {"writers": writers})
    res, F, I, obj = SP.reproc_start_run(ctx, prog)
    seen = set()
    for st, rv in res.exits:
        vals = {}
        for fld in ("first", "second", "third"):
            for k in ("action", "timeout"):
                vals["%s.%s" % (fld, k)] = st.mem.get(("f", ("f", ("f", obj, "stop"), fld), k))
        key = (show(rv)[:20], tuple(show(v) for v in vals.values()))
        if key in seen:
            continue
        seen.add(key)
        if rv == fs(1):
            ok = all(v == fs(("sym", "parsed.stop.%s" % k)) for k, v in vals.items())
            ctx.ob("C15.D2", "reproc_start [success]", "a successful start stores the policy given in the options, after the validator "
                   "resolved the default, in the handle", ok, {k: show(v) for k, v in vals.items()}, nontrivial=True)
        elif all_neg(rv):
            ctx.ob("C15.D2", "reproc_start [failure]", "a failed start stores no policy", all(v is None for v in vals.values()),
                   {k: show(v) for k, v in vals.items()}, nontrivial=True)
    ctx.floor("C15.D2", 2)


def default_rules(ctx, prog):
    """D2p + D3: what the validator leaves in options->stop for every noop/wait/terminate/kill triple (real code,
    independent of how the helper that resolves the default is written or called)"""
    F = prog.fn("parse_options")

    def o_pr(I, fn, n, args, st):
        return [(st, fs(0))]
    I = new_interp(prog, overrides={"parse_redirect": o_pr})
    I.widen = False
    p = {x["name"]: ("v", F.gdid(x["did"])) for x in F.params}
    O = ("g", "options_under_test")
    AV = ("g", "argv_under_test")
    acts = {"noop": prog.const("REPROC_STOP_NOOP"), "wait": prog.const("REPROC_STOP_WAIT"),
            "terminate": prog.const("REPROC_STOP_TERMINATE"), "kill": prog.const("REPROC_STOP_KILL")}
    DL, INF = prog.const("REPROC_DEADLINE"), prog.const("REPROC_INFINITE")
    states = []
    for combo in itertools.product(acts, repeat=3):
        st = State()
        st.mon["nofail"] = True
        st.mem[p["options"]] = fs(("addr", O))
        st.mem[("f", ("f", O, "input"), "data")] = fs("NULL")
        st.mem[("f", ("f", O, "input"), "size")] = fs(0)
        st.mem[("f", ("f", ("f", O, "redirect"), "in"), "type")] = fs(prog.const("REPROC_REDIRECT_PIPE"))
        st.mem[("f", O, "fork")] = fs(0)
        st.mem[("f", O, "deadline")] = fs(0)
        st.mem[p["argv"]] = fs(("addr", ("i", AV, 0)))
        st.mem[("i", AV, 0)] = fs("PTR")
        for i, (fld, a) in enumerate(zip(("first", "second", "third"), combo)):
            st.mem[("f", ("f", ("f", O, "stop"), fld), "action")] = fs(acts[a])
            st.mem[("f", ("f", ("f", O, "stop"), fld), "timeout")] = fs(("sym", "t%d" % i))
        st.mon["case"] = combo
        states.append(st)
    res = I.run(F, states)
    ctx.stats("E-ABS", I.stats)
    by = {}
    for s, rv in res.exits:
        if rv == fs(0):
            by.setdefault(s.mon["case"], set()).add(tuple(
                (show(s.mem.get(("f", ("f", ("f", O, "stop"), fld), "action"))), show(s.mem.get(("f", ("f", ("f", O, "stop"), fld), "timeout"))))
                for fld in ("first", "second", "third")))
    for combo in itertools.product(acts, repeat=3):
        outs = by.get(combo, set())
        if all(a == "noop" for a in combo):
            want = {((show(fs(acts["wait"])), show(fs(DL))), (show(fs(acts["terminate"])), show(fs(INF))),
                     (show(fs(acts["noop"])), show(fs(("sym", "t2")))))}
        else:
            want = {tuple((show(fs(acts[a])), show(fs(("sym", "t%d" % i)))) for i, a in enumerate(combo))}
        ctx.ob("C15.D3", "parse_options: stop = {%s}" % ", ".join(combo), "the policy the validator leaves in the options (and start then "
               "stores in the handle) is: wait(until deadline), terminate, wait(forever) for an all-noop policy; any other policy unchanged",
               outs == want, {"result": sorted(outs)[:2]}, nontrivial=True)
    ctx.floor("C15.D3", 64)
    # D4: the deadline the validator leaves is the one given: 0 means none, every other value - 1 ms, 7 ms, the largest int, the
    # "none" marker itself - is handed on as it is (evaluated exactly; an adjustment that wraps at INT_MAX turns "practically never"
    # into "already over", and destroy would signal at once)
    INT_MAX = 2147483647
    I2 = new_interp(prog, overrides={"parse_redirect": o_pr})
    I2.widen = False
    I2.K = sorted(set(I2.K) | {INT_MAX, 7, 1})
    I2.Kset = set(I2.K)
    I2.TOP_INT = frozenset(I2.K) | {"NEG", "POS"}
    states2 = []
    for d in (0, 1, 7, INT_MAX, INF):
        st = states[0].copy()
        st.mem[("f", O, "deadline")] = fs(d)
        st.mon["case"] = d
        states2.append(st)
    res2 = I2.run(F, states2)
    ctx.stats("E-ABS", I2.stats)
    got = {}
    for s, rv in res2.exits:
        got.setdefault(s.mon["case"], set()).add((show(rv)[:30], s.mem.get(("f", O, "deadline"))))
    for d in (0, 1, 7, INT_MAX, INF):
        outs = got.get(d, set())
        if d in (0, INF):
            ok = bool(outs) and all(r == show(fs(0)) and v == fs(INF) for r, v in outs)
        else:
            # never earlier than asked for, and still a representable int (nothing above INT_MAX exists: the value must be itself)
            ok = bool(outs) and all(r == show(fs(0)) and v is not None and len(v) == 1 and all(isinstance(a, int) and d <= a <= INT_MAX for a in v)
                                    for r, v in outs)
        ctx.ob("C15.D4", "parse_options: deadline = %d" % d, "the validator accepts this deadline and leaves %s in the options"
               % ("'none'" if d in (0, INF) else "a definite number of milliseconds that is not smaller and still an int"), ok,
               {"result": sorted((r, show(v)) for r, v in outs)[:3]}, nontrivial=True)


def check(ctx):
    prog = ctx.prog("posix-mt")
    destroy_rules(ctx, prog)
    policy_rules(ctx, prog)
    default_rules(ctx, prog)
    c07.check_stop(ctx, prog)
    R.start_closure(ctx, prog, "C15.D1s")      # a failed start leaves a state that destroy (analysed above) fully releases
    from . import c08
    c08.wait_rules(ctx, prog)                  # the until-deadline wait of the default policy: bounded, and sees an exited child
    clock_rule(ctx, prog, "C15.D7")            # "once the deadline has passed - never before": a clock that follows real time
    # destroy is analysed from every state of the handle invariant: every other call must leave the handle inside it (C14.L2),
    # in particular a failed or interrupted wait must leave it 'running' so that destroy still stops and reaps the child
    R.c14_closure(ctx, prog)
    from . import c08 as c08_
    c08_.widened_products_rule(ctx, prog, "C15.D6")      # the stored deadline is computed in 64 bits (it decides when destroy may signal)
    from .. import cxxrules
    cxxrules.c15_deleter(ctx)
