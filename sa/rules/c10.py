"""C10 - each standard stream of the child is connected exactly where the options say."""
import itertools
from ..facts import AnalysisBroken, strip, expr_str
from ..absint import State
from ..models import fs, ev, m_fileno, m_open
from ..rulelib import *
from .. import fdtable as T
from .. import startpath as SP
from .. import summaries as S

EXPLANATION = (
    "Static analysis of the wiring from options to descriptors 0/1/2, end to end. (W1) the effective redirect type per stream "
    "for every abstract option combination (shared with C13, exhaustive). (W2/W3) redirect_init abstractly interpreted for every "
    "stream x type: which object becomes the child's end (pipe end of the right direction whose other end the parent gets; the "
    "parent's own stdin/stdout/stderr by fileno, or the null device when it is closed; the null device / the given path opened "
    "read-only for stdin and write-only for stdout and stderr; the given handle; fileno of the given FILE; the child's stdout), "
    "and that the parent receives a pipe end exactly for the pipe type. (W4) name/position agreement in reproc_start: each "
    "stream's constructor gets that stream's tag, handle field and option; the three child ends reach process_start as in/out/err; "
    "stderr's constructor receives stdout's child end. (W5/W6) the child-side install code interpreted with a descriptor-table "
    "model over all 68 layouts of the three handles on descriptors 0, 1, 2 or above (exec and fork mode): at exec descriptor "
    "0/1/2 refer to the object given for stdin/stdout/stderr with close-on-exec clear. Not decided: identity of kernel objects "
    "at run time beyond this name/position/provenance agreement. As built also: (W4t) on every path reaching process_start each child end is of the kind validation decided for that stream, and stderr shares stdout's descriptor only for the 'stdout' type; (W7/W7s) in the forked child of a fork-mode start no child end is closed by number while that number may be 0, 1 or 2, and no stale parent-end number is closed; (W2c) the number fileno() gives for a parent stream is used only after the descriptor has been established open - the three sites of this rule are the recorded finding F16 (see known_findings.json); the reproc++ redirect enumerators equal the C ones (C19.F2). For every valid redirect description redirect_init fails only where a library call failed (W2n); the null device replaces the parent's stream only when fileno failed or a probe found the descriptor closed (W2d).")
ASSUMPTIONS = [
    "clang 14 parser/CFG and the fact extractor are correct",
    "dup2(a, b) with a != b makes b refer to a's object with FD_CLOEXEC clear and is a no-op for a == b; fcntl(F_DUPFD_CLOEXEC, min) "
    "returns a new descriptor >= min referring to the same object; pipe() fills [read end, write end]",
    "the parse_options summary (verified by C13)",
    "fileno(f) answers with the descriptor number recorded in f and does not look whether that descriptor is open (glibc); "
    "fcntl(fd, F_GETFD) fails with EBADF exactly when fd is not open; dup() returns the lowest free descriptor number",
    "in the forked child every descriptor outside the keep list has been closed (C11.X2)",
]

TYPES = ["PIPE", "PARENT", "DISCARD", "STDOUT", "HANDLE", "FILE", "PATH"]
STDFILE = {"IN": "stdin", "OUT": "stdout", "ERR": "stderr"}


def constructor_rules(ctx, prog):
    F = prog.fn("redirect_init")
    O_CREAT, O_CLOEXEC = 0o100, 0o2000000

    def m_fileno_named(I, fn, n, args, st):
        names = sorted(str(a[1][1][1]) if isinstance(a, tuple) and a[0] == "addr" and a[1][0] == "d" and a[1][1][0] == "g" else str(a)
                       for a in args[0] if a != "NULL")
        tok = ("ext", "fileno(%s)" % ",".join(names))
        from ..models import with_errno
        # glibc: fileno() answers with the number recorded in the FILE; it does not look whether that descriptor is still open
        # (the parent may run with 0, 1 or 2 closed).  Only an F_GETFD probe (fcntl model) settles it.
        ok = st.copy()
        if any(n in ("stdin", "stdout", "stderr") for n in names):
            ok.res[tok] = ("maybe-closed",)
        bad = with_errno(st, fs(I.abs_int(9)))
        bad.mon["no_parent_stream"] = tok          # fileno() itself says the stream has no descriptor
        return [(bad, fs(-1)), (ok, fs(tok))]

    def m_open_rec(I, fn, n, args, st):
        outs = m_open(I, fn, n, args, st)
        res = []
        for s, v in outs:
            if v != fs(-1):
                s = s.copy()
                t = next(iter(v))
                s.res[("opened", t)] = (args[0], args[1])
            res.append((s, v))
        return res
    I = new_interp(prog, extra_models={"fileno": m_fileno_named, "open": m_open_rec})
    extra = set()
    for acc in (0, 1):
        extra.add(acc | O_CREAT | O_CLOEXEC)
        extra.add(acc | O_CREAT)
        extra.add(acc)
    I.K = sorted(set(I.K) | extra | {O_CREAT, O_CLOEXEC})
    I.Kset = set(I.K)
    I.TOP_INT = frozenset(I.K) | {"NEG", "POS"}
    p = {x["name"]: ("v", F.gdid(x["did"])) for x in F.params}
    Rc, Pc, Cc = ("g", "redirect_under_test"), ("g", "parent_end"), ("g", "child_end")
    inv = prog.const("PIPE_INVALID")
    states = []
    for stream in ("IN", "OUT", "ERR"):
        for typ in TYPES:
            st = State()
            st.mon["nofail"] = True
            st.mem[p["parent"]] = fs(("addr", Pc))
            st.mem[p["child"]] = fs(("addr", Cc))
            st.mem[Pc] = fs(("sym", "untouched"))
            st.mem[Cc] = fs(("sym", "untouched"))
            st.mem[p["stream"]] = fs(prog.const("REPROC_STREAM_" + stream))
            st.mem[p["redirect"]] = fs(("addr", Rc))
            st.mem[("f", Rc, "type")] = fs(prog.const("REPROC_REDIRECT_" + typ))
            st.mem[("f", Rc, "handle")] = fs(("uh", "user handle"))
            st.mem[("f", Rc, "file")] = fs(("addr", ("d", ("g", "user FILE"))))
            st.mem[("f", Rc, "path")] = fs(("str", "<user path>"))
            st.mem[p["out"]] = fs(("ext", "child's stdout end"))
            st.mon["case"] = (stream, typ)
            states.append(st)
    res = I.run(F, states)
    ctx.stats("E-ABS", I.stats)
    seen = set()
    for st, rv in res.exits:
        stream, typ = st.mon["case"]
        if all_neg(rv):
            continue
        par, chi = st.mem.get(Pc), st.mem.get(Cc)
        ct = one(chi)
        pt = one(par)
        eff = st.mem.get(("f", Rc, "type"))
        detail = {"child_end": show(chi), "parent_end": show(par), "returns": show(rv)}
        ok = rv == fs(0)
        what = ""
        if typ == "PIPE":
            want_c, want_p = ("pipe-read", "pipe-write") if stream == "IN" else ("pipe-write", "pipe-read")
            kc = st.res.get(ct, ("?", None, "?"))[2] if isinstance(ct, tuple) else "?"
            kp = st.res.get(pt, ("?", None, "?"))[2] if isinstance(pt, tuple) else "?"
            same_pipe = isinstance(ct, tuple) and isinstance(pt, tuple) and ct[0] == pt[0] == "fd" and ct[1] == pt[1] and ct[3] == pt[3] and ct != pt
            ok = ok and kc == want_c and kp == want_p and same_pipe
            what = "a pipe: the child gets the %s, the parent the %s of the same pipe" % (want_c.replace("pipe-", "") + " end", want_p.replace("pipe-", "") + " end")
            detail.update({"child_kind": kc, "parent_kind": kp})
        else:
            ok = ok and par == fs(inv)
            if typ == "PARENT":
                key = (stream, typ, show(chi))
                if isinstance(ct, tuple) and ct[0] == "ext":
                    ok = ok and ct == ("ext", "fileno(%s)" % STDFILE[stream])
                    what = "the parent's own %s (by fileno)" % STDFILE[stream]
                    ctx.ob("C10.W2c", "redirect_parent [stream=%s]" % stream, "the number fileno() gives for the parent's stream is handed to the "
                           "child only after it has been established that the descriptor is open (glibc's fileno does not fail for a "
                           "closed descriptor): otherwise 'the parent's stream' is nothing, or whatever was opened on that number since - "
                           "not the null device the property asks for", st.res.get(ct, ("open",))[0] == "open",
                           {"descriptor_state": st.res.get(ct, ("open",))[0], "child_end": show(chi)}, nontrivial=True)
                else:
                    op = st.res.get(("opened", ct))
                    ok = ok and op is not None and op[0] == fs(("str", "/dev/null")) and eff == fs(prog.const("REPROC_REDIRECT_DISCARD"))
                    if op:
                        acc = one(op[1])
                        ok = ok and is_int_(acc) and (acc & 3) == (0 if stream == "IN" else 1)
                    what = "the null device when the parent has no such stream (and the handle is then owned: type recorded as discard)"
                    ptok = ("ext", "fileno(%s)" % STDFILE[stream])
                    absent = st.mon.get("no_parent_stream") == ptok or st.res.get(ptok, ("?",))[0] == "closed"
                    ctx.ob("C10.W2d", "redirect_parent [stream=%s]: fallback" % stream, "the null device replaces the parent's stream only when "
                           "the parent has none (fileno failed, or a probe found the descriptor closed) - an open descriptor of the parent, "
                           "whatever its flags, is the stream the child must get", absent,
                           {"parent_descriptor_state": st.res.get(ptok, ("not probed",))[0], "fileno_failed": st.mon.get("no_parent_stream") == ptok},
                           nontrivial=True)
            elif typ in ("DISCARD", "PATH"):
                op = st.res.get(("opened", ct))
                path = fs(("str", "/dev/null")) if typ == "DISCARD" else fs(("str", "<user path>"))
                ok = ok and op is not None and op[0] == path
                if op:
                    acc = one(op[1])
                    ok = ok and is_int_(acc) and (acc & 3) == (0 if stream == "IN" else 1)
                    detail["open_flags"] = acc
                what = "%s opened %s" % ("the null device" if typ == "DISCARD" else "the given path", "read-only" if stream == "IN" else "write-only")
            elif typ == "HANDLE":
                ok = ok and chi == fs(("uh", "user handle"))
                what = "the given handle"
            elif typ == "FILE":
                ok = ok and chi == fs(("ext", "fileno(user FILE)"))
                what = "the descriptor of the given FILE"
            elif typ == "STDOUT":
                ok = ok and chi == fs(("ext", "child's stdout end"))
                what = "the child's own stdout end"
        key = (stream, typ, what)
        if key in seen and ok:
            continue
        seen.add(key)
        ctx.ob("C10.W2", "redirect_init [stream=%s type=%s]" % (stream, typ), "the child's end is " + what + "; the parent is given a "
               "pipe end exactly when the stream is a pipe", ok, detail, nontrivial=True)
    ctx.floor("C10.W2", 21)
    for stream in ("IN", "OUT", "ERR"):
        kinds = set()
        for st, rv in res.exits:
            if st.mon["case"] == (stream, "PARENT") and rv == fs(0):
                ct = one(st.mem.get(Cc))
                kinds.add("parent stream" if isinstance(ct, tuple) and ct[0] == "ext" else "null device")
        ctx.ob("C10.W2p", "redirect_init [stream=%s type=PARENT]: outcomes" % stream, "redirecting to the parent succeeds both ways: with the "
               "parent's own stream, and with the null device when the parent has none", kinds == {"parent stream", "null device"},
               {"successful_outcomes": sorted(kinds)}, nontrivial=True)
    # W2n: every valid combination is honoured: with a valid redirect description, redirect_init fails only where a system call failed
    states2 = []
    for st in states:
        s2 = st.copy()
        for nm in STDFILE.values():
            s2.mem[("g", nm)] = fs(("addr", ("d", ("g", nm))))      # the C library's three streams exist
        states2.append(s2)
    I2 = new_interp(prog, extra_models={"fileno": m_fileno_named, "open": m_open_rec})
    I2.K, I2.Kset, I2.TOP_INT = I.K, I.Kset, I.TOP_INT
    mark_failures(I2)
    res2 = I2.run(F, states2)
    ctx.stats("E-ABS", I2.stats)
    seen = set()
    nfail = 0
    for st, rv in res2.exits:
        if not any(atom_interval(a)[0] < 0 for a in rv if not isinstance(a, tuple)):
            continue
        stream, typ = st.mon["case"]
        site = ret_site(F, st)[0]
        key = (stream, typ, site, "libfail" in st.mon)
        if key in seen:
            continue
        seen.add(key)
        nfail += 1
        ctx.ob("C10.W2n", "redirect_init [stream=%s type=%s]: %s" % (stream, typ, site), "for a valid redirect (one of the documented types, "
               "with its handle, FILE or path) an error is returned only when a system call failed: no combination the documentation "
               "allows is turned down by the library itself", "libfail" in st.mon, {"returns": show(rv)[:60], "failed_call": st.mon.get("libfail")},
               nontrivial=True)
    ctx.floor("C10.W2n", 6)
    # stream_to_file is exhaustive
    G = prog.fn("stream_to_file")
    rets = {}
    for n in G.walk():
        if n["k"] == "CaseStmt":
            for x in walk_nodes_(n):
                if x["k"] == "ReturnStmt":
                    rets[n.get("caseval")] = expr_str(x["c"][0])
                    break
    want = {prog.const("REPROC_STREAM_IN"): "stdin", prog.const("REPROC_STREAM_OUT"): "stdout", prog.const("REPROC_STREAM_ERR"): "stderr"}
    ctx.ob("C10.W3f", "stream_to_file", "stdin/stdout/stderr map to the parent's stdin/stdout/stderr", rets == want, {"table": rets})


def is_int_(x):
    return isinstance(x, int) and not isinstance(x, bool)


def one(v):
    return next(iter(v)) if v is not None and len(v) == 1 else None


def walk_nodes_(n):
    from ..absint import walk_nodes
    return walk_nodes(n)


def constructor_calls(ctx, prog):
    """reproc_start interpreted (helpers inlined, validation replaced by 'all three streams piped', process_start by its summary) once
    with options.nonblocking = 0 and once with 1; every call of redirect_init is recorded with the values of its arguments, wherever
    in the call tree it is made.  Returns [(nb, stream, dict of checks)] and the per-path construction counts."""
    from .. import summaries as S
    F = prog.fn("reproc_start")
    PIPE = prog.const("REPROC_REDIRECT_PIPE")
    INV = prog.const("HANDLE_INVALID")
    names = {prog.const("REPROC_STREAM_IN"): "in", prog.const("REPROC_STREAM_OUT"): "out", prog.const("REPROC_STREAM_ERR"): "err"}
    out = []
    counts = []
    handle_nb = []
    for nb in (0, 1):
        st = State()
        obj = S.not_started_object(prog, F, st)
        optc = [("v", F.gdid(p_["did"])) for p_ in F.params if p_["name"] == "options"][0]
        st.mem[("f", optc, "nonblocking")] = fs(nb)
        st.mon["nofail"] = True

        def o_parse(I_, fn, n, args, s0):
            s1 = s0.copy()
            for t in [a[1] for a in args[0] if isinstance(a, tuple) and a[0] == "addr"]:
                for x in ("in", "out", "err"):
                    s1.mem[("f", ("f", ("f", t, "redirect"), x), "type")] = fs(PIPE)
                s1.mem[("f", ("f", t, "input"), "data")] = fs("NULL")
                s1.mem[("f", ("f", t, "input"), "size")] = fs(0)
            return [(s1, fs(0))]

        def hook(I_, fn, n, name, args, s0, nb=nb, obj=obj):
            if name != "redirect_init" or len(args) < 6:
                return None
            x = names.get(one(args[2]))
            chk = {"stream_tag": x is not None}
            if x is not None:
                chk["parent_field"] = args[0] == fs(("addr", ("f", ("f", obj, "pipe"), x)))
                rc = one(args[3])
                chk["redirect_option"] = isinstance(rc, tuple) and rc[0] == "addr" and rc[1][0] == "f" and rc[1][2] == x and \
                    rc[1][1][0] == "f" and rc[1][1][2] == "redirect"
                chk["nonblocking"] = args[4] == fs(nb)
                cc = one(args[1])
                if x == "err":
                    oc = s0.mon.get("child_cell_out")
                    chk["stdout_end"] = oc is not None and args[5] == s0.mem.get(oc) and args[5] != fs(INV)
                else:
                    chk["stdout_end"] = args[5] == fs(INV)
                s1 = s0.copy()
                s1.mon["ri_" + x] = s1.mon.get("ri_" + x, 0) + 1
                if isinstance(cc, tuple) and cc[0] == "addr":
                    s1.mon["child_cell_" + x] = cc[1]
                out.append((nb, x, chk, site_of(fn, n)))
                return s1
            out.append((nb, "?", chk, site_of(fn, n)))
            return None
        ov = dict(S.HEAP_HELPERS)
        ov["process_start"] = S.o_process_start
        ov["parse_options"] = o_parse
        I = new_interp(prog, overrides=ov)
        I.hooks_call.append(hook)
        res = I.run(F, [st])
        ctx.stats("E-ABS", I.stats)
        for s_, rv in res.exits:
            if rv == fs(1) and s_.mon.get("proc") != "child":
                counts.append(tuple(s_.mon.get("ri_" + x, 0) for x in ("in", "out", "err")))
                handle_nb.append((nb, s_.mem.get(("f", obj, "nonblocking"))))
    return out, counts, handle_nb


def wiring_rules(ctx, prog):
    """W4: each stream's constructor receives this stream's parent pipe field, tag and redirect option, the caller's nonblocking flag
    and (stderr only) the child's stdout end - decided on the values of the arguments at every redirect_init call of an interpreted
    reproc_start, so it does not matter whether the calls sit in reproc_start, in a helper or in a loop, or what the locals are called"""
    F = prog.fn("reproc_start")
    calls, counts, _ = constructor_calls(ctx, prog)
    seen = set()
    for nb, x, chk, site in calls:
        key = (x, tuple(sorted(chk.items())))
        if key in seen:
            continue
        seen.add(key)
        ctx.ob("C10.W4", "redirect_init for %s (%s)" % (x, site), "the constructor for this stream receives this stream's parent pipe field, "
               "tag and redirect option, the caller's nonblocking flag and - for stderr only - the child's stdout end", all(chk.values()),
               {k: v for k, v in chk.items()}, nontrivial=True)
    ctx.ob("C10.W4", "reproc_start: streams constructed", "on every successful start stdin, stdout and stderr are each constructed exactly once",
           bool(counts) and all(c == (1, 1, 1) for c in counts), {"paths": len(counts), "counts": sorted(set(counts))[:3]}, nontrivial=True)
    ctx.floor("C10.W4", 4)
    # semantic confirmation on the all-paths run: at the process_start call handle.X holds what the constructor for X produced
    res, Fr, I, obj = SP.reproc_start_run(ctx, prog)
    bad = 0
    n = 0
    for e in res.events:
        if e[0] != "process_start":
            continue
        st = e[4]
        args = e[3]
        opt = args[2]
        if not (isinstance(opt, tuple) and opt[0] == "agg"):
            continue
        cell = opt[1][0]
        n += 1
        for x in ("in", "out", "err"):
            hv = st.mem.get(("f", ("f", cell, "handle"), x))
            if hv is None or len(hv) != 1:
                bad += 1
    # ... and each is of the kind validation decided for that stream (nothing re-decides the type in between)
    Tn = {I.abs_int(prog.const("REPROC_REDIRECT_" + t)): t for t in TYPES}
    seen_t = set()
    for e in res.events:
        if e[0] != "process_start":
            continue
        st = e[4]
        opt = e[3][2]
        val = st.mon.get("validated")
        if not (isinstance(opt, tuple) and opt[0] == "agg") or val is None:
            continue
        cell = opt[1][0]
        hv = {x: one(st.mem.get(("f", ("f", cell, "handle"), x))) for x in ("in", "out", "err")}
        for x, tv in zip(("in", "out", "err"), val):
            t = Tn.get(tv, str(tv))
            a = hv[x]
            kind = st.res.get(a, ("?", None, "?"))[2] if isinstance(a, tuple) and a[0] == "fd" else None
            if t == "PIPE":
                ok = kind == ("pipe-read" if x == "in" else "pipe-write")
                pv = one(st.mem.get(("f", ("f", obj, "pipe"), x)))
                same_pipe = isinstance(pv, tuple) and pv[0] == "fd" and pv[1] == a[1] and pv[3] == a[3] and pv != a
                # after start-up input has been written the parent's end of stdin is closed again
                ok = ok and (same_pipe or (x == "in" and st.mon.get("input") == "set" and pv == prog.const("PIPE_INVALID")))
            elif t == "PARENT":
                ok = a == ("ext", "fileno") or kind == "file"
            elif t in ("DISCARD", "PATH"):
                ok = kind == "file"
            elif t == "HANDLE":
                ok = a == ("uh", x)
            elif t == "FILE":
                ok = a == ("ext", "fileno")
            elif t == "STDOUT":
                ok = x == "err" and a == hv["out"]
            else:
                ok = False
            if t != "STDOUT" and isinstance(a, tuple) and a[0] == "fd" and any(a == hv[y] for y in hv if y != x and y != "err"):
                ok = False          # a descriptor the library created for one stream serves another one as well
            if x == "out" and isinstance(a, tuple) and a[0] == "fd" and a == hv["err"] and Tn.get(val[2]) != "STDOUT":
                ok = False
            key = (x, t, ok, None if ok else show(fs(a)) if a is not None else None)
            if key in seen_t:
                continue
            seen_t.add(key)
            ctx.ob("C10.W4t", "reproc_start -> process_start [%s validated as %s]" % (x, t), "the child's end handed on is of the kind validation "
                   "decided for this stream - its own pipe end, file, handle ... - and stderr shares stdout's descriptor only when it was "
                   "validated as 'stdout'", ok, {"handle": str(a), "kind": kind, "stdout_handle": str(hv["out"])}, nontrivial=True)
    ctx.floor("C10.W4t", 18)
    # W7: in the forked child (fork option) the child ends have become descriptors 0, 1, 2.  The exit block of reproc_start runs
    # there too and releases "the child's ends" by number; an end that was created on 0, 1 or 2 (the parent runs with that
    # descriptor closed) IS the stream and must not be closed - unless the path has established that its number is above 2
    unguarded = {}
    nclose = 0
    for e in res.events:
        if e[0] != "close" or e[4] is None or e[4].mon.get("proc") != "child":
            continue
        st = e[4]
        ends = st.mon.get("child_ends") or frozenset()
        for a in e[3]:
            if a in ends:
                nclose += 1
                facts = {(o, c) for (t, o, c) in st.mon.get("fdrange", frozenset()) if t == a}
                above = any((o == ">" and c >= 2) or (o == ">=" and c >= 3) or (o == "<" and c <= 0) or (o == "<=" and c < 0) for o, c in facts)
                if not above:
                    unguarded.setdefault("/".join(e[5][-2:]) + ": " + site_of(e[1], e[2]), set()).add(str(a[1]))
    stale = sorted({site_of(e[1], e[2]) + " via " + "/".join(e[5][-2:]) for e in res.events if e[0] == "double-close" and e[4] is not None
                    and e[4].mon.get("proc") == "child"})
    ctx.ob("C10.W7s", "reproc_start [in the forked child]: stale numbers", "the forked child does not close by number a descriptor that its own "
           "close-all step has already closed (the parent's pipe ends): the number may by now be 0, 1 or 2 with a standard stream installed "
           "on it", not stale, {"closes": stale[:4]}, nontrivial=True)
    ctx.ob("C10.W7", "reproc_start [in the forked child]", "after a fork-mode start the child's stdin, stdout and stderr stay what was installed: "
           "no child end is closed by number in the forked child while that number may be 0, 1 or 2 (where the end itself is the "
           "standard stream because the parent had that descriptor closed)", not unguarded,
           {"closes_in_child": nclose, "unguarded": {k: sorted(v) for k, v in list(unguarded.items())[:4]}}, nontrivial=True)
    ctx.ob("C10.W4s", "reproc_start -> process_start", "on every path reaching process_start the three handles are definite values "
           "produced by the constructors", bad == 0 and n > 0, {"calls": n, "indefinite": bad}, nontrivial=True)


def install_rules(ctx, prog):
    res, F, I, finals, nentries = T.analyse(ctx, prog)
    want_slots = {"in": 0, "out": 1, "err": 2}
    seen = set()
    per_layout = {}
    for layout, mode, st, how in finals:
        exp = dict(st.mon["expected"])
        tab = T.table_of(st)
        problems = []
        if st.mon.get("imprecise"):
            raise AnalysisBroken("C10.W5: descriptor model lost precision at %s" % st.mon["imprecise"])
        for name, slot in want_slots.items():
            cur = tab.get(slot)
            if cur is None:
                problems.append("descriptor %d is closed" % slot)
            elif cur[0] != exp[name]:
                problems.append("descriptor %d refers to '%s' instead of '%s'" % (slot, cur[0], exp[name]))
            elif mode == "exec" and cur[1] is not False:
                problems.append("descriptor %d may still have close-on-exec set (flag %s) and be closed by exec" % (slot, cur[1]))
        key = (layout, mode, tuple(problems))
        per_layout.setdefault((layout, mode), []).append(problems)
        if key in seen:
            continue
        seen.add(key)
        ctx.ob("C10.W5", "process_start child side [stdin/stdout/stderr handles on %s, %s]" % (lay(layout), mode),
               "when the program is exec'ed (or the forked child returns) descriptors 0, 1 and 2 refer to the objects given for "
               "stdin, stdout and stderr, and survive exec", not problems, {"problems": problems, "table": {str(k): v for k, v in tab.items()}},
               nontrivial=True)
    # a layout for which the child never reaches exec / return at all would silently disappear: require every layout to arrive
    missing = [(l, m) for l in T.layouts() for m in ("exec", "fork") if (l, m) not in per_layout]
    baddup = sorted({st.mon.get("bad_dup2") for st, n, fn in res.aborts if st.mon.get("bad_dup2")})
    ctx.ob("C10.W6", "process_start child side: all layouts", "for every layout of the three handles over descriptors 0, 1, 2 and above "
           "the install sequence can complete (no source descriptor is overwritten or closed before it is installed)",
           not missing and not baddup, {"layouts": nentries, "never_complete": [lay(l) + "/" + m for l, m in missing][:6], "overwritten": baddup[:3]},
           nontrivial=True)
    ctx.floor("C10.W5", 136)
    ctx.extra["descriptor_layouts"] = nentries


def lay(layout):
    names = {"B": ">=3", "O": "same as stdout"}
    return "(" + ", ".join(str(names.get(x, x)) for x in layout) + ")"


def check(ctx):
    prog = ctx.prog("posix-mt")
    from . import c13
    c13.check_redirect(ctx, prog)       # W1: effective type table, exhaustive (obligations appear as C13.A2*)
    c13.check_streams_composition(ctx, prog)
    constructor_rules(ctx, prog)
    wiring_rules(ctx, prog)
    install_rules(ctx, prog)
    # settings given through reproc++ name the same types: its enumerators are handed to the C library by cast (C19.F2)
    from .. import cxxrules
    cxxrules.c19_enums(ctx, ctx.prog("cxx"), prog)
