"""C19 - reproc++ is a faithful mapping of the C API."""
from .. import cxxrules

EXPLANATION = (
    "Static analysis of reproc++ (which the baseline build never compiles): the C++ sources and a generated witness TU that "
    "instantiates the header templates are parsed with clang and checked structurally - faithfulness here is name/position/value "
    "agreement, not a property of run-time values. (F1) every positional aggregate initialiser of a C struct in reproc.cpp: clang's "
    "semantic form says which C field element i initialises; the element's source (last member of its access chain through casts, "
    ".count()/.data()/.size()/.get(), or the parameter) must carry that field's name. (F2) C++ and C enumerators correspond one to "
    "one with equal values (also as a static_assert witness TU), constants are initialised from the C ones. (F3) options::clone "
    "assigns every member. (F4) each wrapper calls exactly its C function on the owned handle with its parameters in order and "
    "returns that result with error_code_from(result); error_code_from maps >=0 to success, <0 to {-r, system}, special cases to "
    "the std::errc of the same number. (F5) poll copies sources in/out per index. (F6) container conversions allocate at least "
    "what they write (linear forms) and terminate the array. Scalar conversion helpers (*_from) must hand their parameter on unchanged - no branch, no arithmetic (F1c).")
ASSUMPTIONS = [
    "clang 14 parser / semantic analysis and the fact extractor are correct",
    "the witness TU instantiates arguments/env conversion for std::vector<std::string>, std::map and vector<pair>, drain and run with the stock sinks",
]
TECHNIQUE = "static analysis: structural rules over the type-checked C++ AST (semantic-form initialisers, enum values), compile-fail witnesses, linear size comparison"


def check(ctx):
    cxxrules.check_c19(ctx)
