"""C08 - deadlines and timeouts bound every wait and poll, whatever the order of sources."""
from ..facts import AnalysisBroken, strip, expr_str
from ..absint import State, walk_nodes, atom_interval
from ..models import fs, ev
from ..rulelib import *
from .. import apimodel as A
from .. import apirules as R
from .. import startpath as SP
from .. import summaries as S

EXPLANATION = (
    "Static analysis. (T1) Sentinel discipline by abstract interpretation: the integers of the timeout domain (derived on every "
    "run as the closure of everything compared with / assigned REPROC_INFINITE or REPROC_DEADLINE, through assignments, "
    "arguments and returns) may take part in an ordering comparison only at points where their abstract value excludes the "
    "sentinels they can carry - checked on all paths of expiry, find_earliest_deadline, reproc_wait, reproc_poll with a small "
    "relational refinement (x < y => y - x > 0). (T2-T5) reproc_poll / reproc_wait analysed from the handle invariant with "
    "expiry / pipe_poll replaced by outcome models: the OS poll receives exactly expiry(timeout, deadline of the earliest "
    "source); an expired deadline returns 1 with only the deadline event before anything is allocated or polled and without "
    "touching the deadline; after the OS poll returned 0 the deadline event is reported iff the effective timeout was not the "
    "caller's; the timeout error of wait comes only from the OS poll returning 0; the value handed to poll(2) is never a "
    "negative number other than -1. (T6) the deadline field is written only at creation and on the success arm of start. "
    "(T7) MIN expansions are full operands. (T8) the exit pipe's write end is not closed on the child side of a fork-mode "
    "start. Not decided: wall-clock accuracy, clock steps, which of two expired deadlines is reported. Also: every arithmetic result that can reach a variable compared for equality with a sentinel is evaluated and must exclude the sentinel's number (T1s); find_earliest_deadline is evaluated exactly on all pairs of source kinds against the oracle 'an expired source, else the least time left' (T3e); the clock id of now() is a real-time millisecond clock (T10).")
ASSUMPTIONS = [
    "clang 14 parser/CFG and the fact extractor are correct", "libc models in sa/models.py; poll(2) treats a negative timeout as infinite",
    "callers pass timeouts from the documented domain: >= 0, REPROC_INFINITE, and REPROC_DEADLINE for reproc_wait only",
]


# ------------------------------------------------------------------------------ T1

def timeout_domain(prog):
    """(function, name) pairs of variables / params / fields in the INFINITE-domain and in the DEADLINE-domain"""
    INF_N, DL_N = "REPROC_INFINITE", "REPROC_DEADLINE"
    funcs = [F for F in prog.funcs_all if F.file.endswith(("reproc.c", "options.c"))]
    dom = {INF_N: set(), DL_N: set()}
    ret_dom = {INF_N: set(), DL_N: set()}      # functions whose return value is in the domain

    def key(F, n):
        n = strip(n)
        if n["k"] == "DeclRefExpr" and n.get("dk") in ("local", "param"):
            return (F.name, n["name"])
        if n["k"] == "MemberExpr":
            return ("*", n["member"])
        return None

    def is_const(n, name):
        n = strip(n)
        return n["k"] == "DeclRefExpr" and n.get("name") == name

    changed = True
    while changed:
        changed = False
        for F in funcs:
            for n in F.nodes.values():
                k = n["k"]
                pairs = []
                if k == "BinaryOperator" and n["op"] in ("==", "!="):
                    a, b = n["c"]
                    pairs += [(a, b), (b, a)]
                    for x, y in pairs:
                        for nm in (INF_N, DL_N):
                            if is_const(y, nm) and key(F, x) and key(F, x) not in dom[nm]:
                                dom[nm].add(key(F, x))
                                changed = True
                src = dst = None
                if k == "BinaryOperator" and n["op"] == "=":
                    dst, src = n["c"]
                elif k == "VarDecl" and n.get("c"):
                    dst, src = n, n["c"][0]
                elif k == "ReturnStmt" and n.get("c"):
                    src = n["c"][0]
                if src is not None:
                    s0 = strip(src)
                    srcs = [s0]
                    if s0["k"] == "ConditionalOperator":
                        srcs = [strip(s0["c"][1]), strip(s0["c"][2])]
                    for s1 in srcs:
                        for nm in (INF_N, DL_N):
                            tainted = is_const(s1, nm) or (key(F, s1) in dom[nm]) or \
                                (s1["k"] == "CallExpr" and s1.get("callee") in ret_dom[nm])
                            if not tainted:
                                continue
                            if k == "ReturnStmt":
                                if F.name not in ret_dom[nm]:
                                    ret_dom[nm].add(F.name)
                                    changed = True
                            else:
                                kd = (F.name, dst["name"]) if dst["k"] == "VarDecl" else key(F, dst)
                                if kd and kd not in dom[nm]:
                                    dom[nm].add(kd)
                                    changed = True
                if k == "CallExpr" and n.get("callee") in prog.funcs:
                    G = prog.funcs[n["callee"]]
                    for a, p in zip(n["c"][1:], G.params):
                        for nm in (INF_N, DL_N):
                            if (is_const(a, nm) or key(F, a) in dom[nm]) and (G.name, p["name"]) not in dom[nm] and G in funcs:
                                dom[nm].add((G.name, p["name"]))
                                changed = True
    return dom, ret_dom


def sentinel_rule(ctx, prog):
    INF, DL = prog.const("REPROC_INFINITE"), prog.const("REPROC_DEADLINE")
    dom, ret_dom = timeout_domain(prog)
    ctx.extra["timeout_domain"] = {k: sorted("%s.%s" % x for x in v) for k, v in dom.items()}
    if len(dom["REPROC_INFINITE"]) < 6:
        raise AnalysisBroken("C08.T1: timeout domain derivation found only %s" % sorted(dom["REPROC_INFINITE"]))
    inst = {}

    def dkey(fn, n):
        n = strip(n)
        if n["k"] == "DeclRefExpr" and n.get("dk") in ("local", "param"):
            return (fn.name, n["name"])
        if n["k"] == "MemberExpr":
            return ("*", n["member"])
        return None

    def hook(I, fn, node, op, va, vb, st):
        if op not in ("<", "<=", ">", ">="):
            return
        a, b = node["c"]
        for x, v in ((a, va), (b, vb)):
            kx = dkey(fn, x)
            if kx is None:
                continue
            carries = []
            if kx in dom["REPROC_INFINITE"] and INF in v:
                carries.append("REPROC_INFINITE")
            if kx in dom["REPROC_DEADLINE"] and DL in v:
                carries.append("REPROC_DEADLINE")
            if kx in dom["REPROC_INFINITE"] or kx in dom["REPROC_DEADLINE"]:
                site = "%s: %s" % (fn.name, expr_str(node)[:60])
                cur = inst.setdefault((site, expr_str(x)), {"ok": True, "line": node["l"][0], "carries": set(), "macro": node.get("m", [])[:1]})
                if carries:
                    cur["ok"] = False
                    cur["carries"] |= set(carries)

    def o_now(I, fn, n, args, st):
        return [(st, I.TOP_INT)]
    # syntactic inventory of the rule instances: ordering comparisons with a timeout-domain operand
    alldom = dom["REPROC_INFINITE"] | dom["REPROC_DEADLINE"]
    expected = {}
    for Fn in prog.funcs_all:
        if not Fn.file.endswith(("reproc.c", "options.c")):
            continue
        for n in Fn.nodes.values():
            if n["k"] == "BinaryOperator" and n["op"] in ("<", "<=", ">", ">="):
                for x in n["c"]:
                    if dkey(Fn, x) in alldom:
                        expected.setdefault(Fn.name, set()).add(("%s: %s" % (Fn.name, expr_str(n)[:60]), expr_str(x)))
    for fname in sorted(expected):
        F = prog.fn(fname)
        I = new_interp(prog, overrides={"now": o_now})
        I.hooks_cmp.append(hook)
        if F.params and F.params[0]["name"] == "process" and fname.startswith("reproc_"):
            entries = A.entry_states(prog, I, F, ("RUN",), combos="min")
        else:
            st = State()
            st.mon["nofail"] = True
            entries = [st]
        I.run(F, entries)
        ctx.stats("E-ABS", I.stats)
    missing = [x for xs in expected.values() for x in xs if x not in inst]
    if missing:
        raise AnalysisBroken("C08.T1: comparison(s) %s were found in the source but never reached by the analysis" % missing[:3])
    for (site, opnd), d in sorted(inst.items()):
        ctx.ob("C08.T1", site + " [" + opnd + "]", "a timeout-domain value takes part in an ordering comparison only where it cannot be "
               "one of the sentinels (REPROC_INFINITE / REPROC_DEADLINE) it may carry", d["ok"],
               {"line": d["line"], "may_still_be": sorted(d["carries"]), "via_macro": d["macro"]}, nontrivial=True)
    ctx.floor("C08.T1", 3, "MIN(timeout, remaining), n >= deadline, current < min")


# ------------------------------------------------------------------------------ T2..T4 reproc_poll

def poll_rules(ctx, prog):
    F = prog.fn("reproc_poll")
    INF, DL = prog.const("REPROC_INFINITE"), prog.const("REPROC_DEADLINE")
    EVD = prog.const("REPROC_EVENT_DEADLINE")
    REM = ("sym", "distinct:remaining")

    def o_expiry(I, fn, n, args, st):
        outs = []
        for tag, val in (("deadline", fs(DL)), ("timeout", args[0]), ("remaining", fs(REM))):
            s = st.copy()
            s.mon["expiry"] = tag
            s.mon["expiry_args"] = (args[0], args[1])
            outs.append((s, val))
        return outs

    def o_pipe_poll(I, fn, n, args, st):
        outs = []
        ev(I, "pipe_poll", fn, n, args, st)
        for tag, val in (("neg", I.neg()), ("zero", fs(0)), ("pos", I.pos())):
            s = st.copy()
            s.mon["ppoll"] = tag
            s.mon["ppoll_timeout"] = args[2]
            outs.append((s, val))
        return outs

    def o_fed(I, fn, n, args, st):
        s = st.copy()
        s.mon["fed_args"] = (args[0], args[1])
        return [(s, fs(0))]

    ov = {"expiry": o_expiry, "pipe_poll": o_pipe_poll, "find_earliest_deadline": o_fed,
          "contains_valid_pipe": S.o_bool, "pipe_shutdown": S.o_top_int}
    I = new_interp(prog, overrides=ov)
    I.widen = False
    p = {x["name"]: ("v", F.gdid(x["did"])) for x in F.params}
    T = ("sym", "T")
    DLV = ("sym", "D")
    entries = []
    for label, st in A.shape_states(prog, ("RUN",), combos="min"):
        st = st.copy()
        st.mem[p["sources"]] = fs(("addr", ("i", R.SRC, 0)))
        st.mem[("f", ("i", R.SRC, 0), "process")] = fs(A.OBJ_TOK)
        st.mem[("f", ("i", R.SRC, 0), "events")] = fs(I.abs_int(7))      # stale garbage from a previous call
        st.mem[("f", ("i", R.SRC, 1), "process")] = fs("NULL")           # a second source, also with stale events
        st.mem[("f", ("i", R.SRC, 1), "events")] = fs(I.abs_int(7))
        st.mem[("f", ("i", R.SRC, 1), "interests")] = fs(0)
        st.mem[p["num_sources"]] = fs(2)
        st.mem[p["timeout"]] = fs(T)
        st.mem[A.fcell("deadline")] = fs(DLV)
        st.mon["shape"] = label
        st.mon["nofail"] = True
        entries.append(st)
    res = I.run(F, entries)
    ctx.stats("E-ABS", I.stats)
    evc = ("f", ("i", R.SRC, 0), "events")
    evc1 = ("f", ("i", R.SRC, 1), "events")
    seen = set()
    for st, rv in res.exits:
        ex = st.mon.get("expiry")
        pp = st.mon.get("ppoll")
        evv = st.mem.get(evc)
        other = st.mem.get(evc1)
        if all_nonneg(rv) and (ex, pp, "other", show(other)) not in seen:
            seen.add((ex, pp, "other", show(other)))
            ctx.ob("C08.T3o", "reproc_poll [effective timeout = %s, OS poll = %s] other source" % (ex, pp or "not called"),
                   "whenever poll returns a count, every other source's stale events have been cleared (only true events are reported)",
                   other == fs(0), {"other_source_events": show(other)}, nontrivial=True)
        key = (ex, pp, show(rv)[:30], show(evv)[:30])
        if key in seen:
            continue
        seen.add(key)
        site = "reproc_poll [effective timeout = %s, OS poll = %s]" % (ex, pp or "not called")
        ea = st.mon.get("expiry_args")
        ctx.ob("C08.T2", site + " expiry arguments", "the effective timeout is computed from the caller's timeout and the deadline of the "
               "source found by the earliest-deadline search over the caller's sources",
               ea is not None and ea[0] == fs(T) and ea[1] == fs(DLV) and st.mon.get("fed_args") == (fs(("addr", ("i", R.SRC, 0))), fs(2)),
               {"expiry_args": [show(x) for x in ea] if ea else None}, nontrivial=True)
        if ex == "deadline":
            ok = pp is None and rv == fs(1) and evv == fs(I.abs_int(EVD)) and SP.live_mem(st) == [A.OBJ_TOK] \
                and st.mem.get(A.fcell("deadline")) == fs(DLV)
            ctx.ob("C08.T3", site, "an already expired deadline is reported at once: return 1, only the deadline event, no allocation, "
                   "no OS poll, and the deadline itself is left untouched (so it is reported again next time)", ok,
                   {"returns": show(rv), "events": show(evv)}, nontrivial=True)
            continue
        if pp is not None:
            want_to = fs(T) if ex == "timeout" else fs(REM)
            ctx.ob("C08.T2", site + " OS timeout", "the OS poll is given exactly the effective timeout min(timeout, time left to the "
                   "earliest deadline)", st.mon.get("ppoll_timeout") == want_to, {"given": show(st.mon.get("ppoll_timeout"))}, nontrivial=True)
        if pp == "zero":
            if ex == "remaining":
                ok = rv == fs(1) and evv == fs(I.abs_int(EVD))
                ctx.ob("C08.T4", site, "when the OS poll times out and the deadline came before the caller's timeout: return 1 with only "
                       "the deadline event", ok, {"returns": show(rv), "events": show(evv)}, nontrivial=True)
            else:
                ok = rv == fs(0) and evv == fs(0)
                ctx.ob("C08.T4", site, "when the OS poll times out at the caller's own timeout: return 0 with no events", ok,
                       {"returns": show(rv), "events": show(evv)}, nontrivial=True)
        elif pp == "neg":
            ctx.ob("C08.T4n", site, "an OS poll error is returned as is", all_neg(rv), {"returns": show(rv)[:50]}, nontrivial=True)
    ctx.floor("C08.T3", 1)
    ctx.floor("C08.T4", 2)
    allocs = [e for e in res.events if e[0] == "alloc" and e[4].mon.get("expiry") == "deadline"]
    ctx.ob("C08.T3", "reproc_poll [expired] allocations", "nothing is allocated on the expired-deadline path", not allocs, None)


# ------------------------------------------------------------------------------ T5 reproc_wait, T9 OS timeout

def wait_rules(ctx, prog):
    F = prog.fn("reproc_wait")
    INF, DL = prog.const("REPROC_INFINITE"), prog.const("REPROC_DEADLINE")
    ETIMEDOUT = prog.const("REPROC_ETIMEDOUT")

    def o_now(I, fn, n, args, st):
        return [(st, I.TOP_INT)]
    I = new_interp(prog, overrides={"now": o_now})
    p = {x["name"]: ("v", F.gdid(x["did"])) for x in F.params}
    entries = []
    SEVEN = 7
    if SEVEN not in I.Kset:
        raise AnalysisBroken("C08.T5e: 7 is not a tracked constant")
    for tclass, tv in (("finite", I.nonneg()), ("finite=7", fs(SEVEN)), ("infinite", fs(INF)), ("until-deadline", fs(DL))):
        for dclass, dv in (("none", fs(INF)), ("set", frozenset(x for x in I.TOP_INT if x != INF))):
            for st in A.entry_states(prog, I, F, ("RUN",), combos="min")[:1]:
                st = st.copy()
                st.mem[p["timeout"]] = tv
                st.mem[A.fcell("deadline")] = dv
                st.mon["tclass"] = tclass
                st.mon["dclass"] = dclass
                entries.append(st)
    res = I.run(F, entries)
    ctx.stats("E-ABS", I.stats)
    seen = set()
    for e in res.events:
        if e[0] != "poll":
            continue
        kind, fn, n, info, st, stack = e[:6]
        tv = info[2]
        key = (st.mon.get("tclass"), st.mon.get("dclass"), show(tv))
        if key in seen:
            continue
        seen.add(key)
        bad = [a for a in tv if a != INF and atom_interval(a)[0] < 0]
        ok = not bad
        if st.mon.get("tclass") == "infinite":
            ok = ok and tv == fs(INF)
        if st.mon.get("tclass") == "until-deadline" and st.mon.get("dclass") == "set":
            ok = ok and INF not in tv
        if st.mon.get("tclass") == "finite":
            ok = ok and INF not in tv
        if st.mon.get("tclass") == "finite=7":
            ctx.ob("C08.T5e", "reproc_wait [timeout 7 ms, deadline %s]: timeout given to poll(2)" % st.mon.get("dclass"),
                   "a finite timeout reaches the OS unchanged - the wait is neither shortened (the timeout error would come early) nor "
                   "stretched, whatever the deadline is", tv == fs(SEVEN), {"value": show(tv)[:80]}, nontrivial=True)
            continue
        ctx.ob("C08.T5o", "reproc_wait [timeout %s, deadline %s]: timeout given to poll(2)" % (st.mon.get("tclass"), st.mon.get("dclass")),
               "the value handed to the OS is never a negative number other than -1 (which poll(2) would take for 'forever'); it is "
               "-1 only for an infinite wait, or an until-deadline wait without a deadline; a finite or until-deadline wait with a "
               "deadline is bounded (>= 0)", ok, {"value": show(tv)[:80]}, nontrivial=True)
    ctx.floor("C08.T5o", 5)
    ctx.floor("C08.T5e", 2)
    # ETIMEDOUT provenance: with pipe_poll as an outcome model
    def o_pipe_poll(I2, fn, n, args, st):
        outs = []
        for tag, val in (("neg", I2.neg()), ("zero", fs(0)), ("pos", I2.pos())):
            s = st.copy()
            s.mon["ppoll"] = tag
            outs.append((s, val))
        return outs
    I2 = new_interp(prog, overrides={"now": o_now, "pipe_poll": o_pipe_poll})
    res2 = I2.run(F, A.entry_states(prog, I2, F, ("RUN",), combos="min")[:1])
    ctx.stats("E-ABS", I2.stats)
    seen = set()
    for st, rv in res2.exits:
        pp = st.mon.get("ppoll")
        key = (pp, show(rv)[:40])
        if key in seen:
            continue
        seen.add(key)
        if pp == "zero":
            ok = rv == fs(ETIMEDOUT) and not [e for e in res2.events if e[0] == "waitpid" and e[4].mon.get("ppoll") == "zero"]
            ctx.ob("C08.T5", "reproc_wait [OS poll = 0]", "when the exit pipe did not become ready in time the timeout error is returned "
                   "and the child is not reaped", ok, {"returns": show(rv)}, nontrivial=True)
        else:
            ctx.ob("C08.T5", "reproc_wait [OS poll %s]" % pp, "the timeout error is returned only when the OS poll returned 0",
                   rv != fs(ETIMEDOUT), {"returns": show(rv)[:60]}, nontrivial=True)
    ctx.floor("C08.T5", 3)


# ------------------------------------------------------------------------------ T6, T7, T8

def structure_rules(ctx, prog):
    writers = {}
    for Fn in prog.funcs_all:
        for node in Fn.nodes.values():
            if node["k"] in ("BinaryOperator", "CompoundAssignOperator") and node.get("op", "").endswith("=") \
                    and node["op"] not in ("==", "!=", "<=", ">="):
                fp = field_path(node["c"][0])
                if fp and fp[1] == ["deadline"] and fp[0] == "process":
                    writers.setdefault(Fn.name, []).append(expr_str(node)[:70])
    ctx.ob("C08.T6", "struct reproc_t.deadline", "the absolute deadline is fixed at start: the field is written only by reproc_start "
           "(reproc_new initialises it to 'none')", set(writers) <= {"reproc_start"} and writers, {"writers": writers})
    # on start: failure leaves 'none'; success sets now()+deadline or leaves 'none'
    res, F, I, obj = SP.reproc_start_run(ctx, prog)
    INF = prog.const("REPROC_INFINITE")
    seen = set()
    for st, rv in res.exits:
        d = st.mem.get(("f", obj, "deadline"))
        key = (all_neg(rv), show(d)[:40])
        if key in seen:
            continue
        seen.add(key)
        if all_neg(rv):
            ctx.ob("C08.T6f", "reproc_start [failure]", "a failed start leaves the handle without a deadline", d == fs(INF),
                   {"deadline": show(d)[:60]}, nontrivial=True)
    ctx.floor("C08.T6f", 1)
    # T7 MIN hygiene
    n = 0
    for Fn in prog.funcs_all:
        for node in Fn.nodes.values():
            if node["k"] == "ConditionalOperator" and node.get("m", [])[:1] == ["MIN"]:
                par = Fn.nodes.get(Fn.parent.get(node["id"]))
                while par is not None and par["k"] in ("ParenExpr", "ImplicitCastExpr", "CStyleCastExpr"):
                    par = Fn.nodes.get(Fn.parent.get(par["id"]))
                ok = par is not None and (par["k"] in ("ReturnStmt", "VarDecl") or (par["k"] == "BinaryOperator" and par["op"] == "="
                                                                                  and par["c"][1]["id"] in {x["id"] for x in walk_nodes(par["c"][1])}))
                n += 1
                ctx.ob("C08.T7", site_of(Fn, node), "the unparenthesised MIN(a, b) expansion is a full operand (return value, "
                       "initialiser or right-hand side), so it means min(a, b)", ok, {"parent": par["k"] if par else None})
    if n == 0:
        ctx.ob("C08.T7", "MIN macro", "no expansion of the unparenthesised MIN macro is left in the library (nothing to check)", True, None)
    # T8 exit pipe stays armed in the fork-mode child
    bad = []
    for e in res.events:
        if e[0] == "close" and e[4].mon.get("proc") == "child":
            cs = e[6]
            if cs and cs[0][0] == "reproc_start" and "exit" in cs[0][1]:
                bad.append(cs[0][1])
    ctx.ob("C08.T8", "reproc_start [in child]", "on the child side of a fork-mode start the write end of the exit pipe is not closed "
           "(its hang-up is what tells the parent that the child has exited)", not bad, {"closed_by": sorted(set(bad))}, nontrivial=True)
    # and in the parent it is closed on every path (only the child keeps it)
    nopen = 0
    for st, rv in res.exits:
        if st.mon.get("proc") != "child" and rv == fs(1):
            refd = set()
            for c, v in st.mem.items():
                if cell_base(c) == obj:
                    refd |= {a for a in v or () if isinstance(a, tuple)}
            if [k for k in SP.open_fds(st) if k not in refd]:
                nopen += 1
    ctx.ob("C08.T8p", "reproc_start [parent]", "the parent keeps no copy of the exit pipe's write end after a successful start", nopen == 0,
           None, nontrivial=True)


def expiry_contract(ctx, prog):
    """T0: what expiry(timeout, deadline) returns, per input class and clock relation (rel facts of the path)"""
    F = prog.fn("expiry")
    INF, DL = prog.const("REPROC_INFINITE"), prog.const("REPROC_DEADLINE")
    p = {x["name"]: ("v", F.gdid(x["did"])) for x in F.params}

    def o_now(I, fn, n, args, st):
        return [(st, I.TOP_INT)]
    casts = []

    def cast_hook(I, fn, node, ft, tt, v, st):
        if fn.name == "expiry" and ("long" in ft) and tt in ("int",):
            casts.append((node, v))
    I = new_interp(prog, overrides={"now": o_now})
    I.hooks_cast.append(cast_hook)
    entries = []
    for tclass, tv in (("infinite", fs(INF)), ("finite", I.nonneg())):
        for dclass, dv in (("none", fs(INF)), ("set", frozenset(x for x in I.TOP_INT if x != INF))):
            st = State()
            st.mon["nofail"] = True
            st.mem[p["timeout"]] = tv
            st.mem[p["deadline"]] = dv
            st.mon["case"] = (tclass, dclass)
            entries.append(st)
    res = I.run(F, entries)
    ctx.stats("E-ABS", I.stats)
    seen = set()
    for st, rv in res.exits:
        tclass, dclass = st.mon["case"]
        rel = st.mon.get("rel", frozenset())
        expired = any(f[0] == "<=" and f[1] == p["deadline"] for f in rel)       # deadline <= now
        before = any(f[0] == "<" and f[2] == p["deadline"] for f in rel)         # now < deadline
        key = (tclass, dclass, expired, before, show(rv)[:40])
        if key in seen:
            continue
        seen.add(key)
        if dclass == "none":
            ok = rv == (fs(INF) if tclass == "infinite" else I.nonneg())
            what = "without a deadline the caller's timeout is the effective timeout"
        elif expired:
            ok = rv == fs(DL)
            what = "a deadline that has passed yields the 'expired' marker (so poll reports it at once, every time)"
        else:
            ok = DL not in rv and INF not in rv and all(atom_interval(a)[0] >= 0 for a in rv)
            what = "before the deadline the effective timeout is a non-negative number: the time left, or the smaller of it and the caller's timeout"
        ctx.ob("C08.T0", "expiry [timeout %s, deadline %s, %s]" % (tclass, dclass, "deadline <= now" if expired else "now < deadline" if before else "no clock read"),
               what, ok, {"returns": show(rv)[:80]}, nontrivial=True)
    ctx.floor("C08.T0", 5)
    bad = [(n, v) for n, v in casts if any(atom_interval(a)[0] < 0 for a in v)]
    ctx.ob("C08.T0c", "expiry: narrowing cast", "the 64-bit time difference is narrowed to int only where it is known to be positive (after the "
           "64-bit comparison with the clock), so a long-expired deadline cannot wrap into a future one", not bad and casts,
           {"casts": [expr_str(n)[:50] for n, v in casts], "possibly_negative": [expr_str(n)[:50] for n, v in bad]}, nontrivial=True)


def single_poll_rule(ctx, prog):
    """the OS poll is issued once per pipe_poll call: a retry loop would restart the full timeout"""
    F = prog.fn("pipe_poll")
    from . import c02
    I = new_interp(prog)
    I.hooks_call.append(c02.count_hook("poll"))
    st = State()
    st.mon["nofail"] = True
    res = I.run(F, [st])
    ctx.stats("E-ABS", I.stats)
    worst = max([s.mon.get("n_poll", 0) for s, rv in res.exits] + [0])
    ctx.ob("C08.T2p", "pipe_poll", "a bounded wait calls poll(2) at most once with the given timeout (an interrupted call is reported, not "
           "restarted with the full timeout again)", worst == 1, {"max_poll_calls_on_a_path": worst}, nontrivial=True)


def widened_products_rule(ctx, prog, rule):
    """T9: time arithmetic is done in 64 bits: no product of two ints is computed in 32 bits and widened afterwards (a deadline of
    a few dozen minutes, scaled to a finer unit, would wrap and land in the past)"""
    from .. import tablebounds as TB
    hits = []
    for F in prog.funcs_all:
        if not F.file.startswith(prog.root) or "/test/" in F.file or "/examples/" in F.file:
            continue
        TB.check_widened_products(prog, F, lambda n, ok, d, F=F: hits.append("%s:%d %s" % (F.name, n["l"][0], d["expression"])))
    ctx.ob(rule, "library: products widened after the fact", "no int * int product is converted to a 64-bit value after having been computed "
           "in 32 bits", not hits, {"sites": hits[:4]})


def earliest_contract(ctx, prog):
    """T3e: find_earliest_deadline evaluated exactly (loops unrolled, concrete clock = 4) on every pair of sources, each being: absent
    (process NULL), without a deadline, expired (deadline 2), due soon (7) or due later (9) - with the source's streams open or all
    closed, and its interests naming one stream or all.  The index returned is compared with what the property asks: an expired
    deadline wins (it must be reported now and on every later poll, whatever else the source still has open); otherwise the
    smallest remaining time among all sources given."""
    F = prog.fn("find_earliest_deadline")
    INF = prog.const("REPROC_INFINITE")
    OUT = prog.const("REPROC_EVENT_OUT")
    ALL = OUT | prog.const("REPROC_EVENT_IN") | prog.const("REPROC_EVENT_ERR") | prog.const("REPROC_EVENT_EXIT")
    NOW = 4
    kinds = {"absent": None, "no deadline": INF, "expired": 2, "due soon": 7, "due later": 9}

    def o_now(I, fn, n, args, st):
        return [(st, fs(NOW))]
    p = {x["name"]: ("v", F.gdid(x["did"])) for x in F.params}
    ARR = ("g", "sources#")
    n_ok = 0
    I = new_interp(prog, overrides={"now": o_now})
    I.widen = False
    for need in (NOW, 2, 7, 9, 3, 5):
        if need not in I.Kset:
            raise AnalysisBroken("C08.T3e: %d is not a tracked constant" % need)
    for ka in kinds:
        for kb in kinds:
            for streams in ("open", "closed"):
                for ints in (OUT, ALL):
                    st = State()
                    st.mon["nofail"] = True
                    st.mem[p["sources"]] = fs(("addr", ("i", ARR, 0)))
                    st.mem[p["num_sources"]] = fs(2)
                    for k, kind in enumerate((ka, kb)):
                        el = ("i", ARR, k)
                        st.mem[("f", el, "interests")] = fs(I.abs_int(ints))
                        st.mem[("f", el, "events")] = fs(0)
                        if kinds[kind] is None:
                            st.mem[("f", el, "process")] = fs("NULL")
                            continue
                        tok = ("mem", "process#%d" % k, 0)
                        obj = ("heap", tok)
                        st.mem[("f", el, "process")] = fs(tok)
                        st.mem[("f", obj, "deadline")] = fs(kinds[kind])
                        st.mem[("f", obj, "status")] = fs(prog.const("STATUS_IN_PROGRESS"))
                        st.mem[("f", obj, "handle")] = fs(("pid", "p%d" % k, 0))
                        for s_ in ("in", "out", "err", "exit"):
                            st.mem[("f", ("f", obj, "pipe"), s_)] = fs(-1) if streams == "closed" else fs(("fd", "p%d.%s" % (k, s_), 0, 0))
                    res = I.run(F, [st])
                    rem = [(kinds[k] - NOW) if kinds[k] not in (None, INF) else None for k in (ka, kb)]
                    expired = [i for i, r in enumerate(rem) if r is not None and r <= 0]
                    due = [(r, i) for i, r in enumerate(rem) if r is not None and r > 0]
                    if expired:
                        want = set(expired)
                    elif due:
                        m = min(r for r, i in due)
                        want = {i for r, i in due if r == m}
                    else:
                        want = {0, 1}
                    got = set()
                    for s2, rv in res.exits:
                        got |= set(rv)
                    ok = bool(got) and got <= want
                    n_ok += 1
                    ctx.ob("C08.T3e", "find_earliest_deadline [source 0 %s, source 1 %s, streams %s, interests %s]" % (ka, kb, streams, "out" if ints == OUT else "all"),
                           "the source selected is one whose deadline has expired if there is any, otherwise the one with the least time "
                           "left among all sources that have a deadline - whether or not the source still has a stream to wait on", ok,
                           {"returns": show(frozenset(got))[:40], "expected": sorted(want)}, nontrivial=True)
    ctx.stats("E-ABS", I.stats)
    ctx.floor("C08.T3e", 100)


def sentinel_collision_rule(ctx, prog):
    """T1s: a variable that is tested for equality with a sentinel (== REPROC_INFINITE, == REPROC_DEADLINE) may receive computed values
    (a difference of two times, a sum) only if the computation cannot produce the sentinel's number: "deadline - now" is -1 one
    millisecond after the deadline, and would be taken for "no deadline".  The flow from arithmetic operators to tested variables is
    followed through local definitions, conditional expressions, returned values and arguments; each operator found is then evaluated
    by the abstract interpreter in its own function (relational facts such as now < deadline included)."""
    sent = {"REPROC_INFINITE": prog.const("REPROC_INFINITE"), "REPROC_DEADLINE": prog.const("REPROC_DEADLINE")}
    funcs = {F.name: F for F in prog.funcs_all if F.file.endswith(("reproc.c", "options.c"))}
    ARITH = ("+", "-", "*", "/", "%", "<<", ">>")
    found = {}          # (fname, node id) -> {"sent": set of sentinel names, "via": str}
    tested = []

    def defs_of(F, did):
        out = []
        for n in F.nodes.values():
            if n["k"] == "VarDecl" and n.get("did") == did and n.get("c"):
                out.append(n["c"][0])
            elif n["k"] == "BinaryOperator" and n["op"] == "=" and strip(n["c"][0])["k"] == "DeclRefExpr" and strip(n["c"][0]).get("did") == did:
                out.append(n["c"][1])
            elif n["k"] == "CompoundAssignOperator" and strip(n["c"][0])["k"] == "DeclRefExpr" and strip(n["c"][0]).get("did") == did:
                out.append(n)
            elif n["k"] == "UnaryOperator" and n.get("op") in ("++", "--") and strip(n["c"][0])["k"] == "DeclRefExpr" and strip(n["c"][0]).get("did") == did:
                out.append(n)
        return out

    def follow(F, e, nm, via, seen, depth):
        e = strip(e)
        key = (F.name, e["id"], nm)
        if key in seen or depth > 6:
            return
        seen.add(key)
        k = e["k"]
        if k == "ConditionalOperator":
            follow(F, e["c"][1], nm, via, seen, depth)
            follow(F, e["c"][2], nm, via, seen, depth)
        elif (k == "BinaryOperator" and e["op"] in ARITH) or k == "CompoundAssignOperator" or (k == "UnaryOperator" and e.get("op") in ("++", "--", "-")):
            if k == "UnaryOperator" and e.get("op") == "-":
                return      # negation of a code, not time arithmetic
            d = found.setdefault((F.name, e["id"]), {"sent": set(), "via": via, "expr": expr_str(e)[:60], "line": e["l"][0]})
            d["sent"].add(nm)
        elif k == "BinaryOperator" and e["op"] == ",":
            follow(F, e["c"][1], nm, via, seen, depth)
        elif k == "DeclRefExpr" and e.get("dk") == "local":
            for d in defs_of(F, e.get("did")):
                follow(F, d, nm, via, seen, depth)
        elif k == "DeclRefExpr" and e.get("dk") == "param":
            idx = F.param_index(e["name"])
            for d in defs_of(F, e.get("did")):
                follow(F, d, nm, via, seen, depth)
            for G in funcs.values():
                for c in G.calls(F.name):
                    if idx is not None and idx + 1 < len(c["c"]):
                        follow(G, c["c"][idx + 1], nm, via, seen, depth + 1)
        elif k in ("CallExpr",) and e.get("callee") in funcs:
            G = funcs[e["callee"]]
            for n in G.nodes.values():
                if n["k"] == "ReturnStmt" and n.get("c"):
                    follow(G, n["c"][0], nm, via, seen, depth + 1)

    for F in funcs.values():
        for n in F.nodes.values():
            if n["k"] == "BinaryOperator" and n["op"] in ("==", "!="):
                a, b = n["c"]
                for x, y in ((a, b), (b, a)):
                    ys = strip(y)
                    if ys["k"] == "DeclRefExpr" and ys.get("name") in sent:
                        xs = strip(x)
                        if xs["k"] == "DeclRefExpr" and xs.get("dk") in ("local", "param"):
                            tested.append("%s: %s" % (F.name, expr_str(n)[:50]))
                            follow(F, xs, ys["name"], "%s: %s" % (F.name, expr_str(n)[:50]), set(), 0)
    if len(tested) < 4:
        raise AnalysisBroken("C08.T1s: only %d sentinel tests of local variables found (%s)" % (len(tested), tested))
    ctx.extra["sentinel_tests"] = sorted(set(tested))
    # evaluate every operator found, in its own function with unconstrained inputs
    results = {}

    def hook(I, fn, n, op, val, st):
        if (fn.name, n["id"]) in found:
            results.setdefault((fn.name, n["id"]), set()).update(val)

    def o_now(I, fn, n, args, st):
        return [(st, I.TOP_INT)]
    for fname in sorted({k[0] for k in found}):
        I = new_interp(prog, overrides={"now": o_now})
        I.hooks_arith.append(hook)
        Fh = prog.fn(fname)
        if Fh.params and Fh.params[0]["name"] == "process" and fname.startswith("reproc_"):
            entries = A.entry_states(prog, I, Fh, ("RUN",), combos="min")
        else:
            st = State()
            st.mon["nofail"] = True
            entries = [st]
        I.run(Fh, entries)
        ctx.stats("E-ABS", I.stats)
    for (fname, nid), d in sorted(found.items(), key=lambda kv: (kv[0][0], kv[1]["line"])):
        vals = results.get((fname, nid))
        if vals is None:
            raise AnalysisBroken("C08.T1s: %s: %s was found in the source but never evaluated" % (fname, d["expr"]))
        clash = sorted(nm for nm in d["sent"] if any(atom_interval(a)[0] <= sent[nm] <= atom_interval(a)[1] for a in vals if not isinstance(a, tuple) and a != "PTR" and a != "NULL"))
        ctx.ob("C08.T1s", "%s: %s (line %d)" % (fname, d["expr"], d["line"]), "a computed value that reaches a variable tested for equality with "
               "a sentinel cannot be that sentinel's number (tested at %s)" % d["via"], not clash,
               {"may_equal": clash, "value": show(frozenset(vals))[:80]}, nontrivial=True)
    ctx.floor("C08.T1s", 1, "remaining = deadline - n in expiry")


def check(ctx):
    prog = ctx.prog("posix-mt")
    expiry_contract(ctx, prog)
    sentinel_collision_rule(ctx, prog)
    earliest_contract(ctx, prog)
    clock_rule(ctx, prog, "C08.T10")
    single_poll_rule(ctx, prog)
    sentinel_rule(ctx, prog)
    poll_rules(ctx, prog)
    wait_rules(ctx, prog)
    structure_rules(ctx, prog)
    # "the OS poll returned 0" is what the rules above take for "the time is up": the helper between them and poll(2) must hand 0
    # on only when poll(2) itself returned 0 - an error (EINTR included) stays an error (C09.V6)
    from . import c09
    c09.pipe_poll_rules(ctx, prog)
    widened_products_rule(ctx, prog, "C08.T9")
