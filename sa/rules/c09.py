"""C09 - poll reports exactly the events that are true and nothing else."""
import itertools
from ..facts import AnalysisBroken, strip, expr_str
from ..absint import State
from ..models import fs, ev, m_poll
from ..rulelib import *
from .. import apimodel as A
from .. import apirules as R
from .. import summaries as S

EXPLANATION = (
    "Static analysis: reproc_poll abstractly interpreted (loops unrolled exactly) for source lists [handle], [no process, handle] "
    "and [handle, no process], every interest mask over {in, out, err, exit}, handles with all / none of their stream pipes open, "
    "stale values in the events fields, and the OS-level poll replaced by an outcome model (error / timeout / every non-empty set "
    "of ready slots). Decides: what is handed to the OS poll per slot (the pipe of the stream whose bit is the slot index, only if "
    "that interest is set; writable for stdin, readable otherwise; four slots per source); the closed-pipe error exactly when no "
    "slot holds a valid pipe; on return every source's events = exactly the bits of its ready slots (so a subset of the interests), "
    "sources without a process report nothing and are never dereferenced, the return value = number of sources with events; "
    "errors change no events. pipe_poll copies descriptors/interests in and the OS results back per index without altering them. "
    "Not decided: that a reported readiness is true of the kernel object (that is poll(2)). Handles whose child has already been waited for (exited shape, output possibly still buffered) are analysed as well, and the closer's contract (the invalid marker is stored back whatever close() returned) is part of this check, since 'no stream can still be polled' is decided by comparing fields with that marker. The exit event is the hang-up of the exit pipe: on the all-paths run of reproc_start the child's end of that pipe cannot be descriptor 0, 1 or 2 (where the child's streams are installed over it) when at least two descriptors created earlier are open (V8; fails for redirect types that create fewer than two descriptors - recorded known finding F17).")
ASSUMPTIONS = [
    "clang 14 parser/CFG and the fact extractor are correct", "poll(2) ignores negative descriptors and reports readiness truthfully",
    "deadline handling is C08's; here the effective timeout is a symbolic value different from the 'expired' marker",
]

SLOTS = ("in", "out", "err", "exit")


def analyse(ctx, prog):
    F = prog.fn("reproc_poll")
    INV = prog.const("PIPE_INVALID")
    BITS = [prog.const("REPROC_EVENT_IN"), prog.const("REPROC_EVENT_OUT"), prog.const("REPROC_EVENT_ERR"), prog.const("REPROC_EVENT_EXIT")]
    FIRST = ("sym", "distinct:first")
    SRC = ("g", "poll_sources")

    DLM = prog.const("REPROC_DEADLINE")

    def o_expiry(I, fn, n, args, st):
        a = st.copy()
        a.mon["expired"] = True
        return [(st, fs(FIRST)), (a, fs(DLM))]

    def o_fed(I, fn, n, args, st):
        return [(st, fs(0))]

    def o_pipe_poll(I, fn, n, args, st):
        base = None
        for a in args[0]:
            if isinstance(a, tuple) and a[0] == "addr":
                t = a[1]
                base = t[1] if t[0] == "i" else t
            elif isinstance(a, tuple) and a[0] == "mem":
                base = ("heap", a)
        nsl = one(args[1])
        req = []
        if base is not None and isinstance(nsl, int):
            for k in range(nsl):
                req.append((st.mem.get(("f", ("i", base, k), "pipe")), st.mem.get(("f", ("i", base, k), "interests"))))
        s0 = st.copy()
        s0.mon["ppoll_req"] = tuple(req)
        s0.mon["ppoll_n"] = args[1]
        s0.mon["ppoll_timeout"] = args[2]
        outs = []
        a = s0.copy()
        a.mon["ppoll"] = "neg"
        outs.append((a, I.neg()))
        b = s0.copy()
        b.mon["ppoll"] = ()
        for k in range(len(req)):
            b.mem[("f", ("i", base, k), "events")] = fs(0)
        outs.append((b, fs(0)))
        valid = [k for k, (pv, iv) in enumerate(req) if pv is not None and pv != fs(INV)]
        for r in range(1, len(valid) + 1):
            for ready in itertools.combinations(valid, r):
                c = s0.copy()
                c.mon["ppoll"] = ready
                for k in range(len(req)):
                    c.mem[("f", ("i", base, k), "events")] = I.pos() if k in ready else fs(0)
                outs.append((c, I.pos()))
        return outs
    ov = {"expiry": o_expiry, "find_earliest_deadline": o_fed, "pipe_poll": o_pipe_poll, "pipe_shutdown": S.o_top_int}
    I = new_interp(prog, overrides=ov)
    I.widen = False
    I.MAX_STATES = 40000
    I.K = sorted(set(I.K) | set(range(0, 32)))
    I.Kset = set(I.K)
    I.TOP_INT = frozenset(I.K) | {"NEG", "POS"}
    p = {x["name"]: ("v", F.gdid(x["did"])) for x in F.params}
    entries = []
    for shape_label, st0 in A.shape_states(prog, ("RUN", "EXITED"), combos="min"):
        for layout in (("H",), ("N", "H"), ("H", "N")):
            for mask in range(16):
                st = st0.copy()
                if st.mem.get(A.fcell("status"), 0) is None:
                    st.mem[A.fcell("status")] = I.nonneg()      # exited: the cached status
                st.mem[p["sources"]] = fs(("addr", ("i", SRC, 0)))
                st.mem[p["num_sources"]] = fs(len(layout))
                st.mem[p["timeout"]] = fs(("sym", "T"))
                for i, kind in enumerate(layout):
                    st.mem[("f", ("i", SRC, i), "process")] = fs(A.OBJ_TOK) if kind == "H" else fs("NULL")
                    st.mem[("f", ("i", SRC, i), "interests")] = fs(I.abs_int(mask))
                    st.mem[("f", ("i", SRC, i), "events")] = fs(I.abs_int(31))        # stale
                st.mon["case"] = (shape_label, layout, mask)
                entries.append(st)
    res = I.run(F, entries)
    ctx.stats("E-ABS", I.stats)
    return res, F, I, SRC, BITS, INV, len(entries)


def one(v):
    return next(iter(v)) if v is not None and len(v) == 1 else None


def poll_rules(ctx, prog):
    res, F, I, SRC, BITS, INV, nentries = analyse(ctx, prog)
    EPIPE = prog.const("REPROC_EPIPE")
    PIN, POUT = prog.const("PIPE_EVENT_IN"), prog.const("PIPE_EVENT_OUT")
    derefs = [e for e in res.events if e[0] == "null-deref"]
    ctx.ob("C09.V5", "reproc_poll: sources without a process", "a source whose process is NULL is never dereferenced",
           not derefs, {"dereferences": [site_of(e[1], e[2]) for e in derefs][:3]}, nontrivial=True)
    seen = set()
    nreq = 0
    EVD = prog.const("REPROC_EVENT_DEADLINE")
    for st, rv in res.exits:
        shape_label, layout, mask = st.mon["case"]
        pp = st.mon.get("ppoll", "not called")
        hidx = layout.index("H")
        if st.mon.get("expired"):
            evs0 = [st.mem.get(("f", ("i", SRC, i), "events")) for i in range(len(layout))]
            key0 = ("expired", layout, tuple(show(e) for e in evs0), show(rv))
            if key0 not in seen:
                seen.add(key0)
                nz = sum(1 for e in evs0 if e != fs(0))
                ok = rv == fs(1) and nz == 1 and evs0[0] == fs(I.abs_int(EVD)) and pp == "not called"
                ctx.ob("C09.V3d", "reproc_poll [sources %s | a deadline has expired]" % "/".join("handle" if x == "H" else "no process" for x in layout),
                       "when a deadline has already expired exactly one source reports an event - only the deadline event - every other "
                       "source's (stale) events are cleared, and the return value is 1", ok,
                       {"events": [show(e) for e in evs0], "returns": show(rv)}, nontrivial=True)
            continue
        hv = {name: st.mem.get(A.fcell("pipe", name)) for name in SLOTS}
        # ---- what must have been requested
        want_req = []
        for i, kind in enumerate(layout):
            for k, name in enumerate(SLOTS):
                if kind == "H" and (mask & BITS[k]):
                    want_req.append((hv[name], fs(I.abs_int(POUT if k == 0 else PIN))))
                else:
                    want_req.append((fs(INV), None))
        any_valid = any(pv != fs(INV) for pv, iv in want_req)
        evs = [st.mem.get(("f", ("i", SRC, i), "events")) for i in range(len(layout))]
        key = (shape_label, layout, mask, pp if not isinstance(pp, tuple) else tuple(pp), show(rv)[:30], tuple(show(e) for e in evs))
        if key in seen:
            continue
        seen.add(key)
        case = "[%s | sources %s | interests %s | OS poll %s]" % (shape_label, "/".join("handle" if x == "H" else "no process" for x in layout),
                                                                 "+".join(n for k, n in enumerate(SLOTS) if mask & BITS[k]) or "none", pp)
        if pp == "not called" and str(st.mon.get("failed", "")).startswith("calloc"):
            ctx.ob("C09.V3e", "reproc_poll " + case + " allocation failure", "an allocation failure is reported as an error and no event "
                   "is reported", all_neg(rv), {"returns": show(rv)}, nontrivial=True)
            continue
        if pp == "not called":
            ok = (not any_valid) and rv == fs(EPIPE)
            ctx.ob("C09.V4", "reproc_poll " + case, "the closed-pipe error is returned (without polling) exactly when no requested stream of "
                   "any source holds a valid pipe", ok, {"returns": show(rv), "some_valid_pipe": any_valid}, nontrivial=True)
            continue
        req = st.mon.get("ppoll_req", ())
        req_ok = len(req) == 4 * len(layout) and st.mon.get("ppoll_n") == fs(I.abs_int(4 * len(layout))) \
            and st.mon.get("ppoll_timeout") == fs(("sym", "distinct:first"))
        if req_ok:
            for (pv, iv), (wp, wi) in zip(req, want_req):
                if pv != wp or (wi is not None and iv != wi):
                    req_ok = False
        nreq += 1
        ctx.ob("C09.V1", "reproc_poll " + case + " request", "four slots per source; slot k holds the pipe of the stream whose event bit is "
               "1<<k, only if that interest is set and the source has a process (otherwise the invalid marker); stdin is polled for "
               "writability, the others for readability; the effective timeout is passed on", req_ok and any_valid,
               {"requested": [(show(a), show(b)) for a, b in req], "expected": [(show(a), show(b) if b else "any") for a, b in want_req]}, nontrivial=True)
        # ---- what comes back
        if pp == "neg":
            ctx.ob("C09.V3e", "reproc_poll " + case + " result", "an OS poll error is returned as is", all_neg(rv), {"returns": show(rv)[:50]}, nontrivial=True)
            continue
        ready = set(pp)
        want_ev = []
        for i in range(len(layout)):
            bits = 0
            for k in range(4):
                if (i * 4 + k) in ready:
                    bits |= BITS[k]
            want_ev.append(fs(I.abs_int(bits)))
        nz = sum(1 for w in want_ev if w != fs(0))
        if not ready:
            # timeout: C08 decides between 0 and the deadline event; here only: no stream events
            ok = all(e in (fs(0), fs(I.abs_int(prog.const("REPROC_EVENT_DEADLINE")))) for e in evs)
            ctx.ob("C09.V3", "reproc_poll " + case + " result", "when nothing became ready no stream event is reported", ok,
                   {"events": [show(e) for e in evs], "returns": show(rv)}, nontrivial=True)
            continue
        ok = evs == want_ev and rv == fs(I.abs_int(nz))
        sub = all(one(e) is not None and isinstance(one(e), int) and (one(e) & ~mask) == 0 for e in evs)
        ctx.ob("C09.V3", "reproc_poll " + case + " result", "each source's events are exactly the bits of its ready slots (stale values "
               "cleared first, nothing for a source without process, a subset of its interests) and the return value is the number of "
               "sources with at least one event", ok and sub, {"events": [show(e) for e in evs], "expected": [show(e) for e in want_ev],
                                                              "returns": show(rv), "expected_return": nz}, nontrivial=True)
    ctx.floor("C09.V1", 20)
    ctx.floor("C09.V3", 40)
    ctx.floor("C09.V4", 4)
    ctx.extra["poll_entry_states"] = nentries
    # constants: slot index = event bit; deadline bit outside the slot range; PIPES_PER_SOURCE = 4
    ok = [prog.const("REPROC_EVENT_IN"), prog.const("REPROC_EVENT_OUT"), prog.const("REPROC_EVENT_ERR"), prog.const("REPROC_EVENT_EXIT")] == [1, 2, 4, 8] \
        and prog.const("PIPES_PER_SOURCE") == 4 and prog.const("REPROC_EVENT_DEADLINE") >= 16
    ctx.ob("C09.V1c", "event constants", "event bit k is 1<<k for the four streams, four slots per source, the deadline bit lies outside",
           ok, {"PIPES_PER_SOURCE": prog.const("PIPES_PER_SOURCE")})


def pipe_poll_rules(ctx, prog):
    """V6: per-index copy in, poll pass-through, per-index copy out, nothing copied on error"""
    F = prog.fn("pipe_poll")

    def m_poll_sym(I, fn, n, args, st):
        ev(I, "poll", fn, n, args, st)
        outs = [(st, fs(-1))]
        for ret in (fs(0), I.pos()):
            s = st.copy()
            for a in args[0]:
                if isinstance(a, tuple) and a[0] == "mem":
                    for k in range(2):
                        s.mem[("f", ("i", ("heap", a), k), "revents")] = fs(("sym", "revents%d" % k))
            outs.append((s, ret))
        return outs
    I = new_interp(prog, extra_models={"poll": m_poll_sym})
    I.widen = False
    p = {x["name"]: ("v", F.gdid(x["did"])) for x in F.params}
    SRC = ("g", "pipe_sources")
    st = State()
    st.mon["nofail"] = True
    st.mem[p["sources"]] = fs(("addr", ("i", SRC, 0)))
    st.mem[p["num_sources"]] = fs(2)
    st.mem[p["timeout"]] = fs(("sym", "timeout"))
    for k in range(2):
        st.mem[("f", ("i", SRC, k), "pipe")] = fs(("sym", "pipe%d" % k))
        st.mem[("f", ("i", SRC, k), "interests")] = fs(("sym", "interests%d" % k))
        st.mem[("f", ("i", SRC, k), "events")] = fs(("sym", "old%d" % k))
    res = I.run(F, [st])
    ctx.stats("E-ABS", I.stats)
    polls = [e for e in res.events if e[0] == "poll"]
    ok_in = bool(polls)
    for e in polls:
        s = e[4]
        args = e[3]
        arr = [a for a in args[0] if isinstance(a, tuple) and a[0] == "mem"]
        if len(arr) != 1 or args[1] != fs(2) or args[2] != fs(("sym", "timeout")):
            ok_in = False
            continue
        for k in range(2):
            if s.mem.get(("f", ("i", ("heap", arr[0]), k), "fd")) != fs(("sym", "pipe%d" % k)) or \
                    s.mem.get(("f", ("i", ("heap", arr[0]), k), "events")) != fs(("sym", "interests%d" % k)):
                ok_in = False
    ctx.ob("C09.V6", "pipe_poll: request", "descriptor and interests of source i go to pollfd i unchanged; count and timeout are passed through",
           ok_in, {"polls": len(polls)}, nontrivial=True)
    for s, rv in res.exits:
        evs = [s.mem.get(("f", ("i", SRC, k), "events")) for k in range(2)]
        leaked = [k for k, v in s.res.items() if k[0] == "mem" and v[0] == "live"]
        if all_neg(rv):
            ok = evs == [fs(("sym", "old0")), fs(("sym", "old1"))] and not leaked
            ctx.ob("C09.V6", "pipe_poll: error", "on an error no events are written and the temporary array is freed", ok,
                   {"events": [show(e) for e in evs]}, nontrivial=True)
        else:
            ok = evs == [fs(("sym", "revents0")), fs(("sym", "revents1"))] and not leaked
            ctx.ob("C09.V6", "pipe_poll: result", "the OS result of pollfd i is stored as the events of source i, unaltered (nothing the OS "
                   "reported - readable, writable, hang-up, error - is masked away)", ok, {"events": [show(e) for e in evs], "returns": show(rv)[:30]},
                   nontrivial=True)
    ctx.floor("C09.V6", 3)


def exit_pipe_number_rule(ctx, prog, rule="C09.V8"):
    """V8: the exit event is the hang-up of the exit pipe, whose only write end lives in the child.  process_start installs the three
    stream handles on descriptors 0, 1 and 2 of the child with dup2: if the child's end of the exit pipe sits on one of those numbers
    it is overwritten, the parent closes its own copy after the start, and the pipe hangs up while the child runs.  pipe() hands out
    the two lowest free numbers, and at most 0, 1 and 2 can be free below 3 (a parent running with standard descriptors closed): the
    write end is above 2 exactly when at least two descriptors created earlier in this start are still open when the exit pipe is
    made.  Decided on the all-paths run of reproc_start, per class of validated redirect types (how many descriptors they create)."""
    from .. import startpath as SP
    res, F, I, obj = SP.reproc_start_run(ctx, prog)
    T = lambda name: I.abs_int(prog.const(name))
    creates = {T("REPROC_REDIRECT_PIPE"): 2, T("REPROC_REDIRECT_DISCARD"): 1, T("REPROC_REDIRECT_PATH"): 1}
    classes = {}
    n = 0
    for e in res.events:
        if e[0] != "fd-create" or e[3][0] != "pipe":
            continue
        cs = e[6]
        if not cs or cs[0][0] != "reproc_start" or "exit" not in cs[0][1] or "pipe_init" not in cs[0][1]:
            continue
        st = e[4]
        val = st.mon.get("validated")
        if val is None:
            continue
        n += 1
        k = sum(creates.get(t, 0) for t in val)
        before = len(SP.open_fds(st)) - 2
        c = classes.setdefault(k, {"paths": 0, "min_open_before": None, "example": None})
        c["paths"] += 1
        if c["min_open_before"] is None or before < c["min_open_before"]:
            c["min_open_before"] = before
            c["example"] = [prog.const_name(t, "REPROC_REDIRECT_") if hasattr(prog, "const_name") else t for t in val]
    if n == 0:
        raise AnalysisBroken("%s: the creation of the exit pipe was not found on the start path" % rule)
    for k in sorted(classes):
        c = classes[k]
        ctx.ob(rule, "reproc_start: exit pipe [redirect types that create %d descriptor%s]" % (k, "" if k == 1 else "s"),
               "when the exit pipe is created at least two descriptors made earlier in this start are open, so its write end cannot be "
               "0, 1 or 2 and survives the installation of the child's standard streams (a reported exit event then means the child "
               "has exited)", c["min_open_before"] >= 2, {"paths": c["paths"], "open_before_at_least": c["min_open_before"],
                                                           "example_types": c["example"]}, nontrivial=True)
    ctx.floor(rule, 5)


def check(ctx):
    prog = ctx.prog("posix-mt")
    exit_pipe_number_rule(ctx, prog)
    poll_rules(ctx, prog)
    pipe_poll_rules(ctx, prog)
    # 'no requested stream can still be polled' is decided by comparing pipe fields with the invalid marker: a stream that was
    # closed (by the closed-pipe path of read/write, by reproc_close) must therefore hold the marker, whatever close() returned
    from . import c05
    c05.check_closer(ctx, prog)
    # ... and a stream field is invalidated only when the stream really is closed: by the closed-pipe path of read / write (not by an
    # interrupted or would-block call: C02.S2n), by reproc_close and destroy - never by wait, stop, terminate, kill or poll (C02.S6)
    from . import c02
    c02.api_rules(ctx, prog)
    c02.who_closes_streams(ctx, prog)
