"""C18 - Windows command line and environment block encode argv/env losslessly, in bounds (narrow: bounds and order only)."""
from ..facts import AnalysisBroken, strip, expr_str, CALL_KINDS
from ..absint import walk_nodes
from ..rulelib import *
from .. import linexpr as L

EXPLANATION = (
    "Static analysis of the Windows sources, parsed on Linux against declaration-only stub headers (/verif/stubs/win; no "
    "behaviour is stubbed). Decides the 'in bounds / exactly large enough' sentence and the ordering of the environment block, by "
    "linear-form comparison (E-LIN) of every size-computing function with the function that writes: per control context (same "
    "loop headers and branch conditions in both) bytes written <= cursor advance <= size counted, for argument_escaped_size / "
    "argument_escape, the two loops of argv_join, env_join_size / env_join, and the counting and copying loops of env_concat; "
    "allocations use exactly the counted size; utf16_from_utf8 converts the same (string, size) it sized, into a buffer of the "
    "returned count; env_setup converts the joined extra block with its joined size and concatenates parent then extra. "
    "NOT decided (and not claimed): that the produced command line splits back into the original arguments for every string - a "
    "value-level round trip outside this family (the pinned source drops empty arguments: recorded in DESIGN.md as an "
    "observation, not a check). As built also: the quoting decision is evaluated on the empty string and on strings made of one special character throughout (Z6); the parent environment block is the one obtained in this call and the Windows process code has no writable statics (Z7); shift amounts stay below the operand width (Z8). When the size pass and the write pass cannot be paired (different control skeletons, inputs modified between the passes, an early return the writer does not have) there is no verdict. The builders write their buffers only through the cursor and their entry loops skip nothing (Z9, Z10); the UTF-16 conversion uses code page 65001 (Z5c).")
ASSUMPTIONS = [
    "clang 14 parser and the fact extractor are correct; the stub windows.h declares the used API with the documented signatures",
    "memset/memcpy write exactly the given length, strcpy/wcscpy write length + 1, MultiByteToWideChar writes at most cchWideChar elements",
    "if the two functions of a pair stop having the same control skeleton the check reports analysis-broken, not a verdict",
]
TECHNIQUE = "static analysis: linear size-versus-writer comparison per control context over the parsed Windows sources"


def win_prog(ctx):
    from ..facts import Program, extract_units, CONFIGS, repo_root
    import os
    key = "win-stub"
    ctx.configs_used.add(key)
    root = repo_root()
    units = [os.path.join(root, "reproc", "src", "process.windows.c"), os.path.join(root, "reproc", "src", "utf.windows.c")]
    for u in units:
        if not os.path.exists(u):
            raise AnalysisBroken("%s not found" % u)
    flags = list(CONFIGS[key][2]) + ["-I" + os.path.join(root, "reproc", "include"), "-I" + os.path.join(root, "reproc", "src")]
    docs = extract_units(units, flags, key, root)
    return Program(key, root).load(docs)


CALL_SYMS = {"argument_escape": ("ESC", 2), "argument_escaped_size": ("ESC", 1)}


def canon(n, env=None):
    """linear form with size/writer call pairs mapped to one symbol"""
    def rewrite(x):
        x = strip(x)
        if x["k"] == "CallExpr" and x.get("callee") in CALL_SYMS:
            tag, idx = CALL_SYMS[x["callee"]]
            extra = [expr_str(strip(a)) for a in x["c"][idx + 1:]]
            return {"%s(%s)" % (tag, "; ".join([expr_str(strip(x["c"][idx]))] + extra)): 1}
        return None
    n0 = strip(n)
    r = rewrite(n0)
    if r is not None:
        return r
    if n0["k"] == "BinaryOperator" and n0["op"] in ("+", "-"):
        a, b = canon(n0["c"][0], env), canon(n0["c"][1], env)
        if a is None or b is None:
            return None
        return L.add(a, b if n0["op"] == "+" else L.scale(b, -1))
    return L.lin(n0, env or {})


def context_of(F, n):
    ctx = []
    child = n
    for a in F.ancestors(n):
        if a["k"] == "IfStmt":
            side = "then" if child["id"] in {x["id"] for x in walk_nodes(F.nodes[a["then"]])} else "else"
            ctx.append(("if", expr_str(strip(F.nodes[a["cond"]])), side, a.get("else") is not None))
        elif a["k"] in ("ForStmt", "WhileStmt"):
            if a.get("cond") is not None and child["id"] in {x["id"] for x in walk_nodes(F.nodes[a["body"]])}:
                ctx.append(("loop", expr_str(strip(F.nodes[a["cond"]]))))
        child = a
    return tuple(reversed(ctx))


def accumulate(F, var, env=None, is_cursor=False):
    """per context: total counted / advanced (linear form); for cursors also total written"""
    adv, wr = {}, {}
    tail = {}
    env = env or {}
    for n in sorted(F.walk(), key=lambda x: x["id"]):
        k = n["k"]
        c = None
        if k == "CompoundAssignOperator" and n["op"] == "+=" and expr_str(strip(n["c"][0])) == var:
            f = canon(n["c"][1], env)
            c = context_of(F, n)
            if f is None:
                raise AnalysisBroken("%s: non-linear increment %s" % (F.name, expr_str(n)))
            adv[c] = L.add(adv.get(c, {}), f)
        elif k == "UnaryOperator" and n["op"] == "++" and expr_str(strip(n["c"][0])) == var:
            c = context_of(F, n)
            adv[c] = L.add(adv.get(c, {}), {1: 1})
            par = F.nodes.get(F.parent.get(n["id"]))
            while par is not None and par["k"] in ("ParenExpr", "ImplicitCastExpr"):
                par = F.nodes.get(F.parent.get(par["id"]))
            if is_cursor and par is not None and par["k"] == "UnaryOperator" and par["op"] == "*":
                wr[c] = L.add(wr.get(c, {}), {1: 1})          # *p++ = x
        elif is_cursor and k == "CallExpr" and n.get("callee") in ("memset", "memcpy", "wcscpy", "strcpy", "wmemcpy") \
                and expr_str(strip(n["c"][1])) == var:
            c = context_of(F, n)
            if n["callee"] in ("memset", "memcpy", "wmemcpy"):
                f = canon(n["c"][3], env)
            else:
                src = expr_str(strip(n["c"][2]))
                f = {("wcslen(%s)" if n["callee"] == "wcscpy" else "strlen(%s)") % src: 1, 1: 1}
            if f is None:
                raise AnalysisBroken("%s: non-linear write length %s" % (F.name, expr_str(n)))
            wr[c] = L.add(wr.get(c, {}), f)
        elif is_cursor and k == "BinaryOperator" and n["op"] == "=" and strip(n["c"][0])["k"] == "UnaryOperator" \
                and strip(n["c"][0])["op"] == "*" and expr_str(strip(strip(n["c"][0])["c"][0])) == var:
            c = context_of(F, n)
            tail[c] = L.add(tail.get(c, {}), {1: 1})        # *p = x : one element written at the cursor, cursor not moved
        elif is_cursor and k == "CallExpr" and n.get("callee") == "argument_escape" and expr_str(strip(n["c"][1])) == var:
            c = context_of(F, n)
            wr[c] = L.add(wr.get(c, {}), canon(n))
    if is_cursor:
        return adv, wr, tail
    return adv, wr


def local_env(F):
    """single-definition locals with a linear initialiser, substituted where they are used: sound when nothing the initialiser
    mentions is written after the definition (within the function, in source order - a definition inside a loop body is
    re-evaluated on every iteration)"""
    env = {}
    writes = {}
    for n in F.walk():
        tgt = None
        if n["k"] in ("BinaryOperator", "CompoundAssignOperator") and n.get("op", "").endswith("=") and n["op"] not in ("==", "!=", "<=", ">="):
            tgt = strip(n["c"][0])
        elif n["k"] == "UnaryOperator" and n["op"] in ("++", "--"):
            tgt = strip(n["c"][0])
        if tgt is not None and tgt["k"] == "DeclRefExpr":
            writes.setdefault(tgt["name"], []).append(n["id"])
    for n in sorted(F.walk(), key=lambda x: x["id"]):
        if n["k"] == "VarDecl" and n.get("c") and n["name"] not in writes:
            f = L.lin(n["c"][0], env)
            if f is None:
                continue
            names = {x["name"] for x in walk_nodes(n["c"][0]) if x["k"] == "DeclRefExpr"}
            if any(w > n["id"] for nm in names for w in writes.get(nm, [])):
                continue
            if all(isinstance(k, int) or isinstance(k, str) for k in f):
                env[n["name"]] = f
    return env


def stable_inputs_rule(ctx, rule, F, cursor):
    """the size pass and the write pass of one function call the size / writer helpers with the same argument expressions; that
    only pairs them if those expressions still mean the same thing in the second pass: no variable they mention (other than the
    loop counters and the cursor) is written between the start of the first pass and the end of the last"""
    calls = sorted([x for x in F.walk() if x["k"] == "CallExpr" and x.get("callee") in CALL_SYMS], key=lambda x: x["id"])
    if len(calls) < 2:
        return
    def outer_loop(n):
        lp = None
        for a in F.ancestors(n):
            if a["k"] in ("ForStmt", "WhileStmt", "DoStmt"):
                lp = a
        return lp
    l0, l1 = outer_loop(calls[0]), outer_loop(calls[-1])
    if l0 is None or l1 is None:
        return
    lo = min(x["id"] for x in walk_nodes(l0))
    hi = max(x["id"] for x in walk_nodes(l1))
    counters = set()
    for lp in (l0, l1):
        if lp.get("init") is not None:
            for x in walk_nodes(F.nodes[lp["init"]]):
                if x["k"] == "VarDecl":
                    counters.add(x["name"])
    names = set()
    for c in calls:
        for a in c["c"][1:]:
            for x in walk_nodes(a):
                if x["k"] == "DeclRefExpr" and x.get("dk") in ("local", "param", "staticlocal", "global"):
                    names.add(x["name"])
    names -= counters | {cursor}
    written = {}
    for n in F.walk():
        if not (lo <= n["id"] <= hi):
            continue
        tgt = None
        if n["k"] in ("BinaryOperator", "CompoundAssignOperator") and n.get("op", "").endswith("=") and n["op"] not in ("==", "!=", "<=", ">="):
            tgt = strip(n["c"][0])
        elif n["k"] == "UnaryOperator" and n["op"] in ("++", "--"):
            tgt = strip(n["c"][0])
        if tgt is None:
            continue
        while tgt["k"] in ("ArraySubscriptExpr", "MemberExpr") or (tgt["k"] == "UnaryOperator" and tgt["op"] == "*"):
            tgt = strip(tgt["c"][0])
        if tgt["k"] == "DeclRefExpr" and tgt["name"] in names:
            written.setdefault(tgt["name"], []).append(n["l"][0])
    if written:
        # not a violation in itself (a cache filled during the size pass and read in the write pass can be correct) but the pairing
        # "same expression, same meaning" is gone: no verdict from this rule
        ctx.floor_failures.append("%si: %s: the inputs %s of the paired size / write calls are modified between the two passes (lines %s); "
                                  "the size pass and the write pass cannot be paired, no verdict" % (rule, F.name, sorted(written), written))
    else:
        ctx.ob(rule + "i", "%s: inputs of the paired size / write calls" % F.name, "what the size pass and the write pass hand to the helpers is "
               "not modified between the two passes", True, {"inputs": sorted(names)})


def pair_rule(ctx, rule, Fs, svar, Fw, cursor, init_size, what, strcpy_slack=False):
    if Fs is Fw:
        stable_inputs_rule(ctx, rule, Fs, cursor)
    sadv, _ = accumulate(Fs, svar, local_env(Fs))
    wadv, wwr, wtail = accumulate(Fw, cursor, local_env(Fw), is_cursor=True)
    # an early `return E` of the size function counts E for that context
    for x in Fs.walk():
        if x["k"] == "ReturnStmt" and x.get("c"):
            cx = context_of(Fs, x)
            if cx and cx not in sadv:
                f = canon(x["c"][0], local_env(Fs))
                if f is not None:
                    sadv[cx] = f
                if Fs is not Fw and cx not in wadv and cx not in wwr and not (strcpy_slack and cx[-1][0] == "if" and "should_escape" in cx[-1][1]):
                    # the size function answers early under a condition the writer does not have: what it returns there would have
                    # to cover everything the writer's loops can produce, which per-context comparison cannot establish
                    ctx.floor_failures.append("%s: %s returns early under `%s`, a case the writer %s does not distinguish; the size pass and "
                                              "the write pass cannot be paired, no verdict" % (rule, Fs.name, cx[-1][1][:50], Fw.name))
    # a writer-side `if` (outside any further loop) that the size pass does not have: taken at its worst - the bytes it writes are
    # added to the enclosing context the two passes share.  (A size-side-only condition is handled above; a loop on one side only
    # cannot be paired.)
    for table in (wadv, wwr, wtail):
        for c in [c for c in list(table) if c not in sadv and c != ()]:
            parent = c
            dropped = []
            while parent and parent not in sadv:
                dropped.append(parent[-1])
                parent = parent[:-1]
            # only a plain `if` without else: the arms of an if / else chain exclude each other and must not be added up
            if dropped and all(d[0] == "if" and d[2] == "then" and not d[3] for d in dropped) and (parent in sadv or parent == ()):
                table[parent] = L.add(table.get(parent, {}), table.pop(c))
    contexts = set(sadv) | set(wadv) | set(wwr) | set(wtail)
    if not (set(wadv) | set(wwr)) <= set(sadv) | {()}:
        missing = sorted((set(wadv) | set(wwr)) - set(sadv) - {()}, key=str)
        raise AnalysisBroken("%s: the control skeletons of %s and %s differ (writer context %s has no counterpart in the size "
                             "computation); cannot pair them, no verdict" % (rule, Fs.name, Fw.name, missing[:1]))
    n = 0
    for c in sorted(contexts, key=str):
        counted = sadv.get(c, {})
        advanced = wadv.get(c, {})
        written = wwr.get(c, {})
        trailing = wtail.get(c, {})
        if c == ():
            init = [x for x in Fs.walk() if x["k"] == "VarDecl" and x["name"] == svar and x.get("c")]
            iv = L.lin(init[0]["c"][0], {}) if init else None
            counted = L.add(counted, iv if iv is not None else {1: init_size})
        if not counted and not advanced and not written:
            continue
        label = " / ".join("%s %s%s" % (x[0], x[1][:40], (" [" + x[2] + "]") if len(x) > 2 else "") for x in c) or "outside the loops"
        early = strcpy_slack and c and c[-1][0] == "if" and "should_escape" in c[-1][1]
        if early:
            # unquoted copy: strcpy writes strlen + 1; the extra terminator lands on the slot the caller counts after each argument
            ok_w = L.geq(L.add(counted, {1: 1}), written)
            ok_s = True
        else:
            ok_w = L.geq(advanced, written)
            ok_s = L.geq(counted, L.add(advanced, trailing))
        n += 1
        ctx.ob(rule, "%s vs %s [%s]" % (Fs.name, Fw.name, label), what + ": in this context the bytes written do not exceed the cursor "
               "advance, and the cursor advance does not exceed what the size computation counted", ok_w and ok_s,
               {"counted": L.show(counted), "advanced": L.show(advanced), "written": L.show(written),
                "written_at_cursor_without_advance": L.show(trailing)}, nontrivial=True)
    return n


def quoting_decision_rules(ctx, prog):
    """Z6: which arguments get quoted.  By the Windows splitting rules (and the article the code cites) an argument must be quoted
    when it is empty or contains a blank, tab, newline, vertical tab or double quote.  argument_should_escape is abstractly
    interpreted on the empty string and on strings of arbitrary length >= 1 made of one such character throughout; it must answer
    'quote' on each.  (Necessary conditions of the round trip; strings mixing plain and special characters are not decided.)"""
    from ..absint import State
    from ..models import fs
    F = prog.fn("argument_should_escape")
    pc = ("v", F.gdid(F.params[0]["did"]))
    cases = [("the empty string", 0, 0)] + [("a string of %s only" % nm, c, 1) for nm, c in
                                            (("blanks", 32), ("tabs", 9), ("newlines", 10), ("vertical tabs", 11), ("double quotes", 34))]
    n = 0
    for label, ch, nonempty in cases:
        def m_len(I, fn, node, args, st, nonempty=nonempty):
            return [(st, I.pos() if nonempty else fs(0))]
        I = new_interp(prog, extra_models={"strlen": m_len})
        I.K = sorted(set(I.K) | {9, 10, 11, 32, 34, 92})
        I.Kset = set(I.K)
        I.TOP_INT = frozenset(I.K) | {"NEG", "POS"}
        base = ("g", "argument_under_test")
        st = State()
        st.mem[pc] = fs(("addr", ("i", base, 0)))
        st.mem[("i", base, "*")] = fs(ch)
        st.mem[("i", base, 0)] = fs(ch)
        res = I.run(F, [st])
        ctx.stats("E-ABS", I.stats)
        rets = sorted({show(rv) for s_, rv in res.exits})
        n += 1
        ctx.ob("C18.Z6", "argument_should_escape [%s]" % label, "the argument is quoted: left bare it would vanish from the command line (empty) or "
               "be split / have its quote consumed by the Windows parser", bool(res.exits) and all(rv == fs(1) for s_, rv in res.exits),
               {"answers": rets}, nontrivial=True)
    return n


def parent_block_rule(ctx, prog):
    """Z7: the parent's entries are those of this very start: what env_setup hands to env_concat as the first block is, on every
    definition reaching it, NULL or the result of GetEnvironmentStringsW() called here - not a block remembered from earlier"""
    Fe = prog.fn("env_setup")
    cc = [x for x in Fe.calls("env_concat")]
    if len(cc) != 1:
        return
    a0 = strip(cc[0]["c"][1])
    var = a0.get("name") if a0["k"] == "DeclRefExpr" else None
    defs = []
    for n in Fe.walk():
        if n["k"] == "VarDecl" and n["name"] == var and n.get("c"):
            defs.append(strip(n["c"][0]))
        elif n["k"] == "BinaryOperator" and n["op"] == "=" and expr_str(strip(n["c"][0])) == var:
            defs.append(strip(n["c"][1]))

    def fresh(x):
        x = strip(x)
        if x["k"] == "ConditionalOperator":
            return fresh(x["c"][1]) and fresh(x["c"][2])
        return x.get("null") or x.get("val") == 0 or x["k"] in ("GNUNullExpr",) or (x["k"] == "CallExpr" and x.get("callee") == "GetEnvironmentStringsW") \
            or expr_str(x) in ("NULL", "((void *)0)", "0")
    decl_static = [v for v in prog.vars if v.get("name") == var and v.get("func") == "env_setup"]
    ctx.ob("C18.Z7", "env_setup: parent block", "the first block given to env_concat is NULL or what GetEnvironmentStringsW() returned during "
           "this call (the parent's environment as it is now)", var is not None and defs and all(fresh(d) for d in defs) and not decl_static,
           {"variable": var, "definitions": [expr_str(d)[:60] for d in defs]})
    # no mutable state outlives a start in the Windows process code either
    bad = []
    for v in prog.vars:
        if not v["file"].startswith(prog.root):
            continue
        if v["scope"] == "file" and v.get("def") and not v["const"]:
            bad.append("%s (%s)" % (v["name"], prog.rel(v["file"])))
        if v["scope"] != "file" and not v.get("extern") and not (v["tls"] or v["const"]):
            bad.append("static %s in %s()" % (v["name"], v.get("func")))
    ctx.ob("C18.Z7s", "process.windows.c / utf.windows.c: static storage", "no writable object with static storage (nothing is carried from one "
           "start to the next)", not bad, {"objects": bad[:5]})


def shift_rules(ctx, prog):
    """Z8: a shift by at least the width of its (promoted) left operand is undefined; on the usual targets it wraps, so a bit mask
    indexed by an argument position silently aliases positions 32 apart"""
    from .. import tablebounds as TB
    for F in prog.funcs_all:
        if not F.file.startswith(prog.root):
            continue

        def report(node, ok, det, F=F):
            if ok is None:
                return
            ctx.ob("C18.Z8", "%s:%d %s" % (F.name, node["l"][0], expr_str(node)[:40]), "the shift amount stays below the width of the shifted "
                   "operand for every argument count", ok, det)
        TB.check_shifts(prog, F, report)


def root_name(n):
    """the variable a store goes through: p for *p, *p++, p[i], *(p + k)"""
    n = strip(n)
    while True:
        k = n["k"]
        if k == "UnaryOperator" and n.get("op") in ("*", "++", "--"):
            n = strip(n["c"][0])
        elif k == "ArraySubscriptExpr":
            n = strip(n["c"][0])
        elif k == "BinaryOperator" and n["op"] in ("+", "-"):
            n = strip(n["c"][0])
        elif k == "MemberExpr" and n.get("c"):
            n = strip(n["c"][0])
        else:
            break
    return n.get("name") if n["k"] == "DeclRefExpr" else None


WRITERS = ("memcpy", "memmove", "memset", "strcpy", "strncpy", "strcat", "wcscpy", "wcsncpy", "wcscat", "wmemcpy", "wmemset", "wmemmove")
ENTRY_SIZERS = ("strlen", "wcslen", "argument_escaped_size")


def builder_rules(ctx, prog):
    """Z9: a builder writes its buffer once, front to back, through its cursor: no other pointer of the function is stored through and
    no library writer is aimed at anything but the cursor (a second pass that edits what has been written changes bytes after the
    quoting was decided).  Z10: every entry of a list is counted and written: the loops over the entries have no `continue` or
    `break`, and neither the call that sizes an entry nor the one that writes it sits under a condition inside the loop."""
    for fname, cursor in (("argv_join", "current"), ("env_join", "current"), ("env_concat", "c")):
        F = prog.fn(fname)
        stores = []
        for n in F.walk():
            k = n["k"]
            if k in ("BinaryOperator", "CompoundAssignOperator") and n.get("op", "").endswith("=") and n["op"] not in ("==", "!=", "<=", ">="):
                l = strip(n["c"][0])
                if l["k"] in ("ArraySubscriptExpr",) or (l["k"] == "UnaryOperator" and l.get("op") == "*"):
                    stores.append((root_name(l), expr_str(n)[:50], n["l"][0]))
            elif k == "CallExpr" and n.get("callee") in WRITERS:
                stores.append((root_name(n["c"][1]), expr_str(n)[:50], n["l"][0]))
        if not stores:
            ctx.floor_failures.append("C18.Z9: %s stores nothing itself (writing moved into helpers?), no verdict" % fname)
            continue
        other = ["%s (line %d)" % (s, l) for r, s, l in stores if r != cursor]
        ctx.ob("C18.Z9", "%s: stores" % fname, "the buffer is written only through the cursor `%s`, once, front to back" % cursor, not other,
               {"stores": len(stores), "through_other_pointers": other[:4]}, nontrivial=True)
        loops = [x for x in F.walk() if x["k"] in ("ForStmt", "WhileStmt", "DoStmt")]
        for lp in loops:
            body = [x for x in walk_nodes(lp)]
            jumps = [x for x in body if x["k"] in ("ContinueStmt", "BreakStmt")]
            cond = []
            for x in body:
                is_entry = (x["k"] == "CallExpr" and (x.get("callee") in ENTRY_SIZERS or x.get("callee") in WRITERS or x.get("callee") == "argument_escape"))
                if not is_entry:
                    continue
                for a in F.ancestors(x):
                    if a["id"] == lp["id"]:
                        break
                    if a["k"] in ("IfStmt", "ConditionalOperator", "SwitchStmt"):
                        cond.append(expr_str(x)[:40])
                        break
            ctx.ob("C18.Z10", "%s: loop at line %d" % (fname, lp["l"][0]), "every entry is counted and written: the loop has no continue/break and "
                   "sizes / writes each entry unconditionally", not jumps and not cond,
                   {"jumps": [x["k"] for x in jumps][:3], "conditional_entry_operations": cond[:3]}, nontrivial=True)
    ctx.floor("C18.Z9", 3)
    ctx.floor("C18.Z10", 6)


def check(ctx):
    prog = win_prog(ctx)
    shift_rules(ctx, prog)
    builder_rules(ctx, prog)
    quoting_decision_rules(ctx, prog)
    parent_block_rule(ctx, prog)
    # ---- Z1 argument_escaped_size / argument_escape
    Fs, Fw = prog.fn("argument_escaped_size"), prog.fn("argument_escape")
    n = pair_rule(ctx, "C18.Z1", Fs, "size", Fw, "dest", 0, "escaped size versus escaping writer", strcpy_slack=True)
    # returned length = cursor advance, and the unescaped arm returns strlen and copies the argument itself
    rets = [strip(x["c"][0]) for x in Fw.walk() if x["k"] == "ReturnStmt" and x.get("c")]
    ok = any(r["k"] == "BinaryOperator" and r["op"] == "-" and expr_str(strip(r["c"][0])) == "dest" for r in [strip(r) for r in rets]) or \
        any("dest - begin" in expr_str(r) for r in rets)
    beg = [x for x in Fw.walk() if x["k"] == "VarDecl" and x["name"] == "begin" and x.get("c") and expr_str(strip(x["c"][0])) == "dest"]
    ctx.ob("C18.Z1r", "argument_escape: return value", "the writer returns exactly how far it advanced (so the caller's cursor stays in step)",
           ok and len(beg) == 1, {"returns": [expr_str(r) for r in rets]})
    s_ret = [expr_str(strip(x["c"][0])) for x in Fs.walk() if x["k"] == "ReturnStmt" and x.get("c")]
    sc = [x for x in Fw.calls("strcpy")]
    ok = "argument_size" in s_ret and len(sc) == 1 and expr_str(strip(sc[0]["c"][2])) == "argument" and \
        any(expr_str(strip(x["c"][0])) == "argument_size" for x in Fw.walk() if x["k"] == "ReturnStmt" and x.get("c"))
    ctx.ob("C18.Z1u", "argument_escape: unescaped arm", "an argument that needs no quoting is copied as is and both functions report "
           "strlen(argument) (the copied terminator falls on the slot argv_join counts after every argument)", ok, None)
    if n < 4:
        raise AnalysisBroken("C18.Z1: only %d contexts paired" % n)
    # ---- Z2 argv_join
    F = prog.fn("argv_join")
    pair_rule(ctx, "C18.Z2", F, "joined_size", F, "current", 1, "argv_join sizing loop versus writing loop")
    term = [x for x in F.walk() if x["k"] == "BinaryOperator" and x["op"] == "=" and expr_str(strip(x["c"][0])) == "*current" and strip(x["c"][1]).get("val") == 0]
    cal = [x for x in F.calls("calloc")]
    ctx.ob("C18.Z2a", "argv_join: allocation", "the command line buffer is allocated with exactly the counted size and terminated once",
           len(cal) == 1 and expr_str(strip(cal[0]["c"][1])) == "joined_size" and len(term) == 1, None)
    # ---- Z3 env_join_size / env_join
    pair_rule(ctx, "C18.Z3", prog.fn("env_join_size"), "joined_size", prog.fn("env_join"), "current", 1, "environment block size versus writer")
    Fj = prog.fn("env_join")
    cal = [x for x in Fj.calls("calloc")]
    ok = len(cal) == 1 and strip(cal[0]["c"][1]).get("callee") == "env_join_size" and expr_str(strip(strip(cal[0]["c"][1])["c"][1])) == "env"
    ctx.ob("C18.Z3a", "env_join: allocation", "the block is allocated with env_join_size of the same list", ok, None)
    # ---- Z4 env_concat
    Fc = prog.fn("env_concat")
    pair_rule(ctx, "C18.Z4", Fc, "size", Fc, "c", 1, "env_concat counting loops versus copying loops")
    loops = [x for x in sorted(Fc.walk(), key=lambda x: x["id"]) if x["k"] == "ForStmt"]
    order = []
    for lp in loops:
        init = strip(Fc.nodes[lp["init"]]) if lp.get("init") is not None else None
        src = expr_str(strip(init["c"][1])) if init is not None and init["k"] == "BinaryOperator" else "?"
        kind = "count" if any(x["k"] == "CompoundAssignOperator" and expr_str(strip(x["c"][0])) == "size" for x in walk_nodes(lp)) else "copy"
        order.append((kind, src))
    if not loops:
        # the counting and copying loops are not in env_concat itself (handed to helpers): this rule only knows the in-place form;
        # it cannot pair the helpers' size with the helpers' writes, so it gives no verdict rather than an alarm
        ctx.floor_failures.append("C18.Z4: env_concat contains no counting / copying loops of its own (moved into helpers?); the environment "
                                  "block size cannot be paired with its writer, no verdict")
    else:
        ctx.ob("C18.Z4o", "env_concat: order", "entries of the first block are counted and copied before those of the second",
               order == [("count", "a"), ("count", "b"), ("copy", "a"), ("copy", "b")], {"loops": order})
    cal = [x for x in Fc.calls("calloc")]
    ctx.ob("C18.Z4a", "env_concat: allocation", "the block is allocated with the counted number of wide characters",
           len(cal) == 1 and expr_str(strip(cal[0]["c"][1])) == "size" and "wchar_t" in expr_str(cal[0]["c"][2]), None)
    Fe = prog.fn("env_setup")
    cc = [x for x in Fe.calls("env_concat")]
    ok = len(cc) == 1 and "parent" in expr_str(cc[0]["c"][1]) and "extra" in expr_str(cc[0]["c"][2])
    ctx.ob("C18.Z4p", "env_setup: env_concat(parent, extra)", "the parent's entries come first, then the extra entries", ok,
           {"call": expr_str(cc[0]) if cc else None})
    uj = [x for x in Fe.calls("utf16_from_utf8")]
    ej = [x for x in Fe.calls("env_join")]
    es = [x for x in Fe.calls("env_join_size")]
    ok = len(uj) == 1 and len(ej) == 1 and len(es) == 1 and expr_str(strip(ej[0]["c"][1])) == expr_str(strip(es[0]["c"][1])) == "extra"
    if ok:
        szvar = None
        par = Fe.nodes.get(Fe.parent.get(es[0]["id"]))
        while par is not None and par["k"] != "VarDecl":
            par = Fe.nodes.get(Fe.parent.get(par["id"]))
        szvar = par["name"] if par else None
        ok = szvar is not None and szvar in expr_str(uj[0]["c"][2])
    ctx.ob("C18.Z4u", "env_setup: conversion length", "the joined extra block is converted with the size computed for the same list "
           "(so every entry, not just the first, is converted)", ok, None)
    # ---- Z5 utf16_from_utf8
    Fu = prog.fn("utf16_from_utf8")
    calls = sorted([x for x in Fu.calls("MultiByteToWideChar")], key=lambda x: x["id"])
    ok = len(calls) == 2
    det = {}
    if ok:
        a, b = calls
        same_src = expr_str(strip(a["c"][3])) == expr_str(strip(b["c"][3])) == "string" and expr_str(strip(a["c"][4])) == expr_str(strip(b["c"][4])) == "size"
        sizing = strip(a["c"][5]).get("null") or strip(a["c"][5]).get("val") == 0
        cal = [x for x in Fu.calls("calloc")]
        cap = expr_str(strip(b["c"][6]))
        alloc = expr_str(strip(cal[0]["c"][1])) if cal else None
        det = {"first": [expr_str(x)[:20] for x in a["c"][1:]], "second": [expr_str(x)[:20] for x in b["c"][1:]], "alloc": alloc}
        ok = same_src and sizing and cap == "r" and alloc == "r" and expr_str(strip(b["c"][5])) == "wstring"
    for c in calls:
        cp = const_of(prog, c["c"][1])
        if cp is None:
            ctx.floor_failures.append("C18.Z5c: the code page %s is not a constant this check can evaluate, no verdict" % expr_str(c["c"][1])[:30])
        else:
            ctx.ob("C18.Z5c", "utf16_from_utf8: MultiByteToWideChar (line %d)" % c["l"][0], "arguments and environment entries are documented as "
                   "UTF-8 and are converted as UTF-8 (code page 65001): under the ANSI code page every byte above 0x7f becomes a different "
                   "character and the child does not receive the original strings", cp == 65001, {"code_page": cp})
    ctx.ob("C18.Z5", "utf16_from_utf8", "the conversion is given the same (string, size) that was sized, and writes into a buffer of exactly "
           "the returned element count", ok, det)
    ctx.floor("C18.Z1", 4)
    ctx.floor("C18.Z2", 2)
    ctx.floor("C18.Z3", 1)
    ctx.floor("C18.Z4", 2)
