"""C04 - start is all-or-nothing and reports the real cause of failure."""
from ..facts import AnalysisBroken, expr_str, strip
from ..absint import State, atom_interval
from ..models import fs, m_read
from ..rulelib import *
from .. import startpath as SP
from .. import summaries as S

EXPLANATION = (
    "Static analysis: abstract interpretation of the whole start path (reproc_start -> process_start -> process_fork, "
    "helpers inlined, three composed runs with verified summaries) in which every libc/system call takes both its "
    "failing and its succeeding outcome (read/waitpid also EINTR), on both sides of fork. Decides on every path: a failed "
    "call makes start return a negative value; on a negative return the handle is back in its not-started state, no "
    "descriptor/allocation is left, no child is left unreaped; on success the status is 'running', the stored pid is the "
    "positive fork result, the error pipe reached end-of-file; the child reports -r over the error pipe before _exit. "
    "Not decided: which errno the kernel produces; simultaneous fault pairs beyond what all-paths coverage implies. Includes C03.P4b/P4g (what reaches exec is the directory plus argv[0] as composed) and E6 (the library never calls exit()/quick_exit(): the failed child ends with _exit).")
ASSUMPTIONS = [
    "clang 14 parser/CFG and the fact extractor are correct",
    "libc models in sa/models.py: each fallible call either fails (returning its documented failure value) or succeeds; "
    "a blocking read() on a valid pipe fails only with EINTR; waitpid fails with EINTR or ECHILD",
    "pipe writes of sizeof(int) are atomic, so the parent reads exactly what the child wrote",
    "summaries of process_fork / process_start / parse_options are verified against the code in the same run "
    "(rules SUM.fork, SUM.start; parse_options by C13)",
]


def errpipe_hook(I, fn, n, name, args, st):
    """path-sensitive monitor of the child's error report: write(error pipe, &V, sizeof V) must carry -r, i.e.
    V is a local whose only definition is `-R` for a local R that is negative at this point"""
    if name != "write" or st.mon.get("proc") != "child":
        return None
    buf = strip(n["c"][2])
    verdict, what = "bad", expr_str(buf)
    if buf["k"] == "UnaryOperator" and buf["op"] == "&":
        x = strip(buf["c"][0])
        if x["k"] == "DeclRefExpr" and x.get("dk") == "local":
            defs = [d for d in fn.nodes.values() if d["k"] == "VarDecl" and d["did"] == x["did"]]
            other = [d for d in fn.nodes.values() if d["k"] in ("BinaryOperator", "CompoundAssignOperator")
                     and d.get("op", "").endswith("=") and d["op"] not in ("==", "!=", "<=", ">=")
                     and strip(d["c"][0]).get("did") == x["did"] and strip(d["c"][0])["k"] == "DeclRefExpr"]
            if len(defs) == 1 and not other and defs[0].get("c"):
                init = strip(defs[0]["c"][0])
                if init["k"] == "UnaryOperator" and init["op"] == "-":
                    r = strip(init["c"][0])
                    if r["k"] == "DeclRefExpr" and r.get("dk") == "local":
                        R = st.mem.get(("v", fn.gdid(r["did"])))
                        what = "%s = -%s with %s = %s" % (x["name"], r["name"], r["name"], show(R))
                        if R is not None and all_neg(R):
                            verdict = "ok"
    s = st.copy()
    s.mon["errwrite"] = verdict
    s.mon["errwrite_detail"] = "%s:%d writes %s" % (fn.name, n["l"][0], what)
    return s


def m_read_errpipe(I, fn, n, args, st):
    outs = m_read(I, fn, n, args, st)
    res = []
    for s, v in outs:
        if s.mon.get("lastread") == "data":
            s = s.copy()
            for a in args[1]:
                if isinstance(a, tuple) and a[0] == "addr":
                    s.mem[a[1]] = I.pos()     # E2: only positive error codes are ever written into the error pipe
        res.append((s, v))
    return res


def exit_obligations(ctx, F, res, tag, want_int=True):
    """E1: failure => negative; interrupted calls are retried; child side never returns after a failure"""
    n = 0
    for st, rv in res.exits:
        site, node = ret_site(F, st)
        fl = st.mon.get("failed")
        proc = st.mon.get("proc")
        if fl:
            n += 1
            if proc == "child":
                ctx.ob("C04.E1", site + " [child, after %s]" % fl.split("@")[0],
                       "after a failed call on the child side the child does not return to the caller (it reports and exits)",
                       False, {"failed_call": fl, "returns": show(rv), "analysis": tag}, nontrivial=True)
            else:
                ctx.ob("C04.E1", site + " [after %s]" % fl.split("@")[0],
                       "a failed call on the start path makes the function return a negative error (the system's error code, not the "
                       "raw -1 of the failed call)", all_neg(rv) and rv != fs(-1), {"failed_call": fl, "returns": show(rv), "analysis": tag},
                       nontrivial=True)
        ei = st.mon.get("eintr")
        if ei:
            ctx.ob("C04.E1i", site + " [after EINTR in %s]" % ei.split("@")[0],
                   "a call interrupted by a signal is retried or makes start fail; it is never taken for success",
                   all_neg(rv), {"interrupted_call": ei, "returns": show(rv), "analysis": tag}, nontrivial=True)
    return n


def error_code_rule(ctx, prog):
    """E1c: "returns that negative system error": the descriptor helpers report a failed libc call as -errno, never as the raw
    -1 the call itself returned (which the callers, and in the child the error pipe, would pass on as the code EPERM)"""
    from ..absint import State
    n = 0
    for F in prog.funcs_all:
        fname = F.file.rsplit("/", 1)[-1]
        if fname not in ("handle.posix.c", "pipe.posix.c", "redirect.posix.c"):
            continue
        ext = [x for x in F.walk() if x["k"] == "CallExpr" and x.get("callee") and x["callee"] not in prog.funcs
               and x["callee"] not in ("__assert_fail", "__errno_location")]
        if not ext:
            continue
        I = new_interp(prog)
        I.overrides.pop(F.name, None)
        try:
            res = I.run(F, [State()])
        except AnalysisBroken:
            continue
        raw = sorted({ret_site(F, st)[0] + " after " + str(st.mon.get("failed")) for st, rv in res.exits
                      if st.mon.get("failed") and str(st.mon.get("failed")).split("@")[-1].startswith(F.name + ":") and rv == fs(-1)})
        # ... and as the -errno of that very call: no other code is substituted (the one documented exception is redirect_parent, which
        # answers "the parent has no such stream" with the closed-pipe code so that its caller falls back to the null device)
        other = []
        if F.name != "redirect_parent":
            for st, rv in res.exits:
                fl = str(st.mon.get("failed") or "")
                ev_ = st.mem.get(("g", "errno"))
                if ev_ is not None and all_neg(rv) and not any(isinstance(a, tuple) for a in ev_):
                    want = I.arith("-", fs(0), ev_)
                    if rv != want and not rv <= want:
                        other.append("%s: returns %s, errno %s" % (ret_site(F, st)[0], show(rv)[:30], show(ev_)[:30]))
        ctx.ob("C04.E1d", F.name, "the negative code returned after a failed system call is the negation of the errno that call left "
               "(the real cause reaches the caller of start)", not other, {"substituted": sorted(set(other))[:3]}, nontrivial=True)
        n += 1
        ctx.ob("C04.E1c", F.name, "a failed system call is reported as -errno, not as the raw -1 the call returned (start would pass that "
               "on as the error code EPERM instead of the real cause)", not raw, {"raw_minus_one_returned_at": raw[:3]}, nontrivial=True)
    ctx.floor("C04.E1c", 6)


def check(ctx):
    prog = ctx.prog("posix-mt")
    error_code_rule(ctx, prog)
    # ---- process_fork stand-alone (+ summary agreement)
    Ff = prog.fn("process_fork")
    If = new_interp(prog, extra_models={"read": m_read_errpipe})
    If.hooks_call.append(errpipe_hook)
    rf = If.run(Ff)
    ctx.stats("E-ABS", If.stats)
    SP.fork_run(ctx, prog)
    exit_obligations(ctx, Ff, rf, "process_fork")
    protocol(ctx, rf, Ff, "process_fork")
    # ---- C04.E4m: the same with the call that restores the signal mask allowed to fail (the other runs take it to succeed)
    Im = new_interp(prog, extra_models={"read": m_read_errpipe})
    Im.hooks_call.append(errpipe_hook)
    Im.restore_may_fail = True
    rm = Im.run(Ff)
    ctx.stats("E-ABS", Im.stats)
    seen_m = set()
    for st, rv in rm.exits:
        c = S.classify_fork_exit(st, rv)
        site, node = ret_site(Ff, st)
        key = (site, c, show(rv), st.mon.get("proc"), tuple(sorted((str(k), v) for k, v in st.res.items() if k[0] == "pid")))
        if key in seen_m:
            continue
        seen_m.add(key)
        ctx.ob("C04.E4m", site + " [%s]" % (c or "unclassified"), "also when restoring the signal mask fails, process_fork ends in one of: "
               "failed before fork / child returns 0 / parent returns the pid / parent returns <0 with the child reaped - never a "
               "negative return with a child that runs on", c is not None,
               {"returns": show(rv), "side": st.mon.get("proc"), "children": {str(k): v for k, v in st.res.items() if k[0] == "pid"},
                "failed": st.mon.get("failed")}, nontrivial=True)
    ctx.floor("C04.E4m", 4)
    # ---- process_start with fork summarised
    Fs = prog.fn("process_start")
    ov = dict(S.HEAP_HELPERS)
    ov["process_fork"] = S.o_process_fork
    Is = new_interp(prog, overrides=ov, extra_models={"read": m_read_errpipe})
    Is.hooks_call.append(errpipe_hook)
    rs = Is.run(Fs, S.process_start_entry(prog, Fs))
    ctx.stats("E-ABS", Is.stats)
    exit_obligations(ctx, Fs, rs, "process_start")
    protocol(ctx, rs, Fs, "process_start")
    SP.verify_start_summary(ctx, prog)
    p = [x for x in Fs.params if x["name"] == "process"][0]
    pcell = ("d", ("v", Fs.gdid(p["did"])))
    for st, rv in rs.exits:
        if st.mon.get("proc") == "child":
            continue
        site, node = ret_site(Fs, st)
        pv = st.mem.get(pcell)
        if may_nonneg(rv):
            ok = rv == fs(1) and pv is not None and all_pos(pv) and all(isinstance(a, tuple) and a[0] == "pid" for a in pv) \
                and all(st.res.get(a) == ("running",) for a in pv) and st.mon.get("lastread") == "eof"
            ctx.ob("C04.E5", site + " [success]", "success is returned only with the positive pid of the running child "
                   "published and after the error pipe reached end-of-file (the program was exec'ed)", ok,
                   {"returns": show(rv), "*process": show(pv), "error_pipe": st.mon.get("lastread")}, nontrivial=True)
        else:
            ctx.ob("C04.E4", site + " [failure]", "on failure no pid is published and no child is left unreaped",
                   pv is None and not SP.running_pids(st), {"*process": show(pv), "running": [str(x) for x in SP.running_pids(st)],
                                                           "failed": st.mon.get("failed")}, nontrivial=True)
    # ---- reproc_start with process_start / parse_options summarised
    res, F, I, obj = SP.reproc_start_run(ctx, prog)
    exit_obligations(ctx, F, res, "reproc_start")
    NS, IP, IC = prog.const("STATUS_NOT_STARTED"), prog.const("STATUS_IN_PROGRESS"), prog.const("STATUS_IN_CHILD")
    inv = prog.const("PIPE_INVALID")
    seen = set()
    for st, rv in res.exits:
        site, node = ret_site(F, st)
        hf = SP.handle_fields(st, obj)
        key = (show(rv), tuple(sorted((k, show(v)) for k, v in hf.items())), len(SP.open_fds(st)), len(SP.live_mem(st)),
               len(SP.running_pids(st)), st.mon.get("proc"))
        if key in seen:
            continue
        seen.add(key)
        if all_neg(rv):
            clean = (hf["status"] == fs(NS) and hf["handle"] == fs(prog.const("PROCESS_INVALID"))
                     and all(hf[k] == fs(inv) for k in ("pipe.in", "pipe.out", "pipe.err", "pipe.exit", "child.out", "child.err")))
            ctx.ob("C04.E3", site + " [failure: handle state]", "on a negative return the handle is back in the not-started "
                   "state (status marker, invalid pid, all pipe fields invalid) so it can be started again or destroyed",
                   clean, {k: show(v) for k, v in hf.items()}, nontrivial=True)
            ctx.ob("C04.E3r", site + " [failure: resources]", "on a negative return no descriptor or allocation made by "
                   "start is left and no child is left running", not SP.open_fds(st) and not SP.live_mem(st)
                   and not SP.running_pids(st), {"open": [str(x) for x in SP.open_fds(st)], "mem": [str(x) for x in SP.live_mem(st)],
                                                 "running": [str(x) for x in SP.running_pids(st)], "failed": st.mon.get("failed")},
                   nontrivial=True)
        elif rv == fs(1):
            ok = hf["status"] == fs(IP) and hf["handle"] is not None and all(isinstance(a, tuple) and a[0] == "pid" for a in hf["handle"]) \
                and all(st.res.get(a) == ("running",) for a in hf["handle"]) and SP.is_fd(hf["pipe.exit"]) \
                and st.res.get(next(iter(hf["pipe.exit"])))[0] == "open"
            ctx.ob("C04.E5", site + " [success]", "success (1) is returned only with status 'running', the handle holding the "
                   "positive pid of the running child and a valid exit pipe", ok, {k: show(v) for k, v in hf.items()}, nontrivial=True)
        elif rv == fs(0):
            ctx.ob("C04.E5c", site + " [in child]", "0 is returned only on the child side of a fork-mode start, with the "
                   "in-child marker", st.mon.get("proc") == "child" and hf["status"] == fs(IC), {k: show(v) for k, v in hf.items()},
                   nontrivial=True)
        else:
            ctx.ob("C04.E5x", site, "start returns a negative error, 0 (in child) or 1 (started)", False, {"returns": show(rv)})
    # what is launched is what was asked for: validation does not quietly drop a working directory start would have to fail on (C13.A2k)
    from . import c13
    c13.check_parse_options(ctx, prog, None)
    # the program looked up is the requested one as it resolves now (the prefix comes from a getcwd() of this very start: C03.P4g)
    from . import c03
    # ... and what is handed to exec is that directory followed by argv[0] as given, not edited after composition (C03.P4b; the rule
    # includes P4g)
    c03.prepend_rules(ctx, prog)
    child_exit_rule(ctx, prog, "C04.E6")       # a failed child reports and vanishes: it runs none of the application's exit handlers
    ctx.floor("C04.E1", 20)
    ctx.floor("C04.E3", 2)
    ctx.floor("C04.E5", 2)
    ctx.floor("C04.E2", 2)


def protocol(ctx, res, F, tag):
    """E2: every child-side abort is preceded by a write of -r to the error pipe"""
    late = sorted({(e[4].mon.get("failed"), site_of(e[1], e[2])) for e in res.events if e[0] == "exec" and e[4].mon.get("failed")})
    ctx.ob("C04.E1x", "execvp [%s]" % tag, "the program is never exec'ed after a call that the launch depends on (chdir, dup2, fcntl, ...) "
           "has failed in the child", not late, {"failed_call_then_exec": late[:4]}, nontrivial=True)
    seen = set()
    for st, n, fn in res.aborts:
        if st.mon.get("proc") != "child":
            continue
        if n.get("callee") == "execvp":
            continue
        key = (n["id"], st.mon.get("errwrite"), st.mon.get("errwrite_detail"))
        if key in seen:
            continue
        seen.add(key)
        ctx.ob("C04.E2", site_of(fn, n) + " [%s]" % tag, "before the child exits on a pre-exec failure it writes -r (the "
               "error it is failing with) to the error pipe", st.mon.get("errwrite") == "ok",
               {"write": st.mon.get("errwrite_detail"), "verdict": st.mon.get("errwrite")}, nontrivial=True)
