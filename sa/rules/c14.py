"""C14 - any call sequence follows the documented life cycle; misuse errors, never UB."""
from ..rulelib import *
from .. import apirules as R
from .. import apimodel as A
from .. import startpath as SP
from ..models import fs

EXPLANATION = (
    "Static analysis: inductive object-invariant proof by abstract interpretation. The handle invariant (four shapes: not "
    "started / running / exited / in child; every pipe field invalid or a valid open descriptor) is assumed at entry of every "
    "exported function, each function is analysed on all CFG paths from every shape (libc calls failing and succeeding), and "
    "must return what the state dictates (invalid-argument error without side effect in misuse states, null handle "
    "rejected before any dereference, closed streams short-circuit) and leave the handle in a shape again by an allowed "
    "transition. reproc_new / reproc_start establish the invariant. With assertions compiled in, no ASSERT of the library "
    "is feasible from any invariant state or on the start path. By induction this covers every finite call sequence. "
    "Not decided: absence of every kind of undefined behaviour in general (only null dereference of the handle, stale "
    "descriptors, assertion beliefs). As built also: counted tables (the caller's source array, the pipe table, the pollfd array, descriptor sets, local arrays) are never indexed at or beyond their element count, for every count, by linear forms over loop bounds (L5t), and shift amounts stay below the operand width (L5s); reads and writes on closed or non-piped streams return the closed-pipe error whatever buffer and size are given (C02.S2). No variable-length array or alloca is sized by an unchecked count (L5v); no nonnull annotation lets the compiler drop the null-handle guards (L1n); absent sources are never polled or dereferenced (C09.V1-V5).")
ASSUMPTIONS = [
    "clang 14 parser/CFG and the fact extractor are correct",
    "libc models in sa/models.py",
    "callers pass valid pointers (the property's own precondition) and do not use one handle from two threads in conflicting calls",
    "a child reaped behind the library's back (waitpid -> ECHILD) leaves the handle formally running",
]


def check_new(ctx, prog):
    F = prog.fn("reproc_new")
    I = new_interp(prog)
    res = I.run(F)
    ctx.stats("E-ABS", I.stats)
    n = 0
    for st, rv in res.exits:
        if rv == fs("NULL"):
            ctx.ob("C14.L0", "reproc_new [allocation failed]", "returns NULL without leaking", not SP.live_mem(st), None, nontrivial=True)
            continue
        toks = [a for a in rv if isinstance(a, tuple) and a[0] == "mem"]
        ok = len(toks) == 1 and len(rv) == 1
        if ok:
            obj = ("heap", toks[0])
            g = lambda *p: st.mem.get(A_cell(obj, p))
            inv = fs(prog.const("PIPE_INVALID"))
            ok = (g("status") == fs(prog.const("STATUS_NOT_STARTED")) and g("handle") == fs(prog.const("PROCESS_INVALID"))
                  and all(g("pipe", s) == inv for s in ("in", "out", "err", "exit")) and g("child", "out") == inv
                  and g("child", "err") == inv and g("deadline") == fs(prog.const("REPROC_INFINITE")))
        n += 1
        ctx.ob("C14.L0", "reproc_new [success]", "a new handle is in the not-started shape (status marker, invalid pid, all pipe "
               "fields invalid, no deadline)", ok, {"returns": show(rv)}, nontrivial=True)
    if n < 1:
        raise AnalysisBroken("reproc_new: no successful exit")


def A_cell(obj, path):
    c = obj
    for p in path:
        c = ("f", c, p)
    return c


def check_start(ctx, prog):
    """start: rejected unless not started; establishes RUN / stays NS / CHILD (details in C04)"""
    EINVAL = prog.const("REPROC_EINVAL")
    from .. import summaries as S
    F = prog.fn("reproc_start")
    ov = dict(S.HEAP_HELPERS)
    ov["process_start"] = S.o_process_start
    ov["parse_options"] = S.o_parse_options
    I = new_interp(prog, overrides=ov)
    entries = A.entry_states(prog, I, F, ("RUN", "EXITED", "CHILD"), combos="min")
    evs = []
    for st0 in entries:
        try:
            res = I.run(F, [st0])
        except AnalysisBroken:
            # the run did not end in a quick rejection but went on into the start path until the state cap: if it made a system
            # call on the way, that is already a definite violation of "nothing is touched"; otherwise there is no verdict
            part = [e for e in I.events if e[0] in R.OS_EVENTS]
            if not part:
                raise
            ctx.ob("C14.L1", "reproc_start [%s]" % R.shape_of(st0.mon.get("shape")), "starting a handle that is not in the not-started state "
                   "is rejected with the invalid-argument error and nothing is touched", False,
                   {"system_calls_made": sorted({site_of(e[1], e[2]) for e in part})[:4], "note": "analysis stopped at the state cap after these calls"},
                   nontrivial=True)
            evs += part
            continue
        for st, rv in res.exits:
            lab = st.mon.get("shape")
            sh1, why = A.classify(prog, I, st)
            ctx.ob("C14.L1", "reproc_start [%s]" % R.shape_of(lab), "starting a handle that is not in the not-started state is rejected "
                   "with the invalid-argument error and nothing is touched", rv == fs(EINVAL) and sh1 == R.shape_of(lab),
                   {"returns": show(rv), "handle": A.fields(st)}, nontrivial=True)
        evs += R.ev_of(res, R.OS_EVENTS)
    ctx.stats("E-ABS", I.stats)
    ctx.ob("C14.L1s", "reproc_start [started]", "no system call is made when start is rejected", not evs, None, nontrivial=True)
    rn, Fn, In = R.null_handle(ctx, prog, "reproc_start")
    derefs = [e for e in rn.events if e[0] == "null-deref"]
    ctx.ob("C14.L1n", "reproc_start [null handle]", "a null handle is rejected before any dereference",
           all(rv == fs(EINVAL) for st, rv in rn.exits) and not derefs, None, nontrivial=True)
    # start from NS: every exit leaves a shape again: NS (failure), RUN (started) or CHILD
    res, F, I, obj = SP.reproc_start_run(ctx, prog)
    seen = set()
    for st, rv in res.exits:
        sh1, why = A.classify(prog, I, st, obj)
        want = "RUN" if rv == fs(1) else "CHILD" if rv == fs(0) else "NS"
        key = (sh1, why, want)
        if key in seen:
            continue
        seen.add(key)
        ctx.ob("C14.L2", "reproc_start [NS -> %s]" % (sh1 or "?"), "start leaves the handle not started (failure), running "
               "(returned 1) or in-child (returned 0), with every pipe field invalid or a valid open descriptor",
               sh1 == want, {"why": why, "returns": show(rv), "handle": A.fields(st, obj)}, nontrivial=True)
    seen = set()
    for st, rv in res.exits:
        if rv != fs(1):
            continue
        vals = {}
        stale = []
        for name in ("in", "out", "err", "exit"):
            v = st.mem.get(("f", ("f", obj, "pipe"), name))
            vals[name] = show(v)
            for a in v or ():
                if isinstance(a, tuple) and a[0] == "fd" and st.res.get(a, ("?",))[0] != "open":
                    stale.append(name)
            if v is None or (len(v) != 1):
                stale.append(name + "?")
        key = (tuple(sorted(vals.items())), tuple(stale))
        if key in seen:
            continue
        seen.add(key)
        ctx.ob("C14.L2s", "reproc_start [NS -> RUN]", "after a successful start every pipe field is invalid or a valid open "
               "descriptor (no stale descriptor number is kept)", not stale, {"pipe": vals, "stale": stale}, nontrivial=True)
    ctx.floor("C14.L2s", 4)


def nonnull_rule(ctx, prog):
    """L1n: the null-pointer guards the other rules find in the source are also what the compiler keeps.  A declaration that marks a
    parameter `nonnull` (or a return value `returns_nonnull`) lets an optimising compiler delete the very test `process == NULL`
    that turns misuse into an error return - the guard is then present in every source-level analysis and absent from the
    library.  Lexical scan (comments and strings blanked) of every header and source file of the library, macros included."""
    import glob
    import os
    import re
    root = prog.root
    files = []
    for pat in ("reproc/include/reproc/*.h", "reproc/src/*.h", "reproc/src/*.c", "reproc++/include/reproc++/**/*.hpp", "reproc++/src/*.cpp"):
        files += glob.glob(os.path.join(root, pat), recursive=True)
    hits = []
    for path in sorted(files):
        text = open(path, errors="replace").read()
        text = re.sub(r"/\*.*?\*/", lambda m: re.sub(r"[^\n]", " ", m.group(0)), text, flags=re.S)
        text = re.sub(r"//[^\n]*", "", text)
        text = re.sub(r'"(\\.|[^"\\\n])*"', '""', text)
        for ln, line in enumerate(text.split("\n"), 1):
            if re.search(r"\b(__nonnull|nonnull|returns_nonnull|_Nonnull|__attribute_nonnull__)\b", line):
                hits.append("%s:%d %s" % (os.path.relpath(path, root), ln, line.strip()[:60]))
    if len(files) < 30:
        raise AnalysisBroken("C14.L1n: only %d library files found" % len(files))
    ctx.ob("C14.L1n", "library: nonnull annotations", "no declaration tells the compiler that a pointer parameter is never null: the "
           "null-handle guards stay in the compiled library", not hits, {"files_scanned": len(files), "annotations": hits[:4]})


def check(ctx):
    prog = ctx.prog("posix-mt")
    check_new(ctx, prog)
    check_start(ctx, prog)
    R.c14_guards(ctx, prog)
    R.c14_closure(ctx, prog)
    R.c14_streams(ctx, prog)
    # reads and writes on a closed or non-piped stream return the closed-pipe error, whatever buffer and size are given (C02.S2)
    from . import c02
    c02.api_rules(ctx, prog)
    R.c14_bounds(ctx, prog)
    R.c14_tables(ctx, prog)
    # a source without a process is ignored: none of its four slots is polled (they hold the invalid marker, never descriptor 0),
    # it is never dereferenced, and a table of absent sources only is "no stream left" (C09.V1, V5)
    from . import c09
    c09.poll_rules(ctx, prog)
    # the start path is analysed under "fork mode <=> argv == NULL, otherwise argv[0] != NULL" (it hands argv[0] to strdup / strlen):
    # that is what the validator has to establish for every argument vector the caller may pass (C13.A2o)
    from . import c13
    c13.check_parse_options(ctx, prog, None)
    F13 = prog.fn("parse_redirect")
    if {"redirect", "stream", "parent", "discard", "file", "path"} <= {x["name"] for x in F13.params}:
        c13.check_redirect(ctx, prog)      # a type without its handle / file / path is rejected (the constructors dereference them)
    nonnull_rule(ctx, prog)
    R.exited_is_quiet(ctx, prog, "C14.L2q")
    R.c14_asserts(ctx)
