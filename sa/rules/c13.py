"""C13 - conflicting or unsatisfiable options are rejected up front, with no side effect."""
import itertools
from ..facts import AnalysisBroken, strip, expr_str
from ..absint import State
from ..models import fs, ev, targets
from ..rulelib import *
from .. import startpath as SP
from .. import summaries as S

EXPLANATION = (
    "Static analysis, exhaustive over a finite abstract space. The validator only ever asks of a redirect whether `type` equals "
    "an enumerator and whether handle/file/path are set, and of the options whether the shorthands are set, whether input data "
    "is null and its size positive, whether fork is set and argv / argv[0] null. parse_redirect is abstractly interpreted for "
    "every combination of stream x type (8 enumerators and one out-of-range value) x handle/file/path set-unset x the four "
    "shorthands (2592 abstract inputs), parse_options for every combination of its cross-field inputs, and each verdict "
    "(reject with the invalid-argument error / accept with this effective type and these payloads) is compared with an "
    "independent transcription of the documented rules (reproc.h:114-158, :204-241, :265-290 and the property). Out-of-range "
    "types are not asserted either way. Further: the validator has no effect outside its options object (no system call, no "
    "global store), and in reproc_start it runs before any pipe, file, allocation or process is created, its failure path "
    "touching nothing. The summary of parse_options used by the other start-path checks is verified against the same runs. As built also: no 64-bit option value is narrowed before it is tested (A2n); when the validator does not see argv, the fork/argv rejection is checked on reproc_start itself (A2f).")
ASSUMPTIONS = [
    "clang 14 parser/CFG and the fact extractor are correct",
    "the oracle (oracle_redirect / oracle_options in sa/rules/c13.py) transcribes the header documentation faithfully",
    "a handle is 'set' iff it is non-zero, a pointer iff it is non-null (the code's and the documentation's notion)",
]
TECHNIQUE = "static analysis: exhaustive finite-domain abstract interpretation of the validator compared with a transcription of the documented rules"

TYPES = ["DEFAULT", "PIPE", "PARENT", "DISCARD", "STDOUT", "HANDLE", "FILE", "PATH"]


def oracle_redirect(stream, typ, h, f, p, parent, discard, fsh, psh):
    """('reject',) | ('accept', effective type, which payload must be kept) | ('any',) for out-of-range types"""
    is_set = typ != "DEFAULT" or h or f or p
    if typ == "OOR":
        return ("any",)
    if fsh or psh:
        # reproc.h:227-240: with the file/path shorthand, out, err, parent, discard and the other shorthand must be unset
        if fsh and psh:
            return ("reject",)
        if is_set or parent or discard:
            return ("reject",)
        return ("accept", "FILE" if fsh else "PATH", "shorthand")
    kinds = [k for k, v in (("HANDLE", h), ("FILE", f), ("PATH", p)) if v]
    if len(kinds) > 1:
        return ("reject",)                      # reproc.h:127,144,154: the other payloads must be unset
    if kinds:
        k = kinds[0]
        if typ not in ("DEFAULT", k):
            return ("reject",)                  # type must be unset or match the payload
        return ("accept", k, k.lower())
    if typ in ("HANDLE", "FILE", "PATH"):
        return ("reject",)                      # the type lacks what it needs
    if typ == "STDOUT":
        return ("accept", "STDOUT", None) if stream == "ERR" else ("reject",)   # reproc.h:65 only valid for stderr
    if typ in ("PIPE", "PARENT", "DISCARD"):
        return ("accept", typ, None)
    # DEFAULT, nothing set: shorthands parent / discard compete (reproc.h:217, :224)
    if parent and discard:
        return ("reject",)
    if parent:
        return ("accept", "PARENT", None)
    if discard:
        return ("accept", "DISCARD", None)
    return ("accept", "PARENT" if stream == "ERR" else "PIPE", None)   # reproc.h:207


def redirect_cases(prog, I, F):
    p = {x["name"]: ("v", F.gdid(x["did"])) for x in F.params}
    R = ("g", "redirect_under_test")
    T = {t: I.abs_int(prog.const("REPROC_REDIRECT_" + t)) for t in TYPES}
    T["OOR"] = I.abs_int(11)
    SV = {s: I.abs_int(prog.const("REPROC_STREAM_" + s)) for s in ("IN", "OUT", "ERR")}
    states = []
    for stream in ("IN", "OUT", "ERR"):
        for typ in TYPES + ["OOR"]:
            for h, f, pa, parent, discard, fsh, psh in itertools.product((0, 1), repeat=7):
                if stream == "IN" and (fsh or psh):
                    continue        # the stdin call passes NULL for both shorthands (checked by C13.A2c)
                st = State()
                st.mon["nofail"] = True
                st.mem[p["redirect"]] = fs(("addr", R))
                st.mem[("f", R, "type")] = fs(T[typ])
                st.mem[("f", R, "handle")] = fs(("uh", "h")) if h else fs(0)
                st.mem[("f", R, "file")] = fs(("str", "<file>")) if f else fs("NULL")
                st.mem[("f", R, "path")] = fs(("str", "<path>")) if pa else fs("NULL")
                st.mem[p["stream"]] = fs(SV[stream])
                st.mem[p["parent"]] = fs(parent)
                st.mem[p["discard"]] = fs(discard)
                st.mem[p["file"]] = fs(("str", "<shorthand file>")) if fsh else fs("NULL")
                st.mem[p["path"]] = fs(("str", "<shorthand path>")) if psh else fs("NULL")
                st.mon["case"] = (stream, typ, h, f, pa, parent, discard, fsh, psh)
                states.append(st)
    return states, R, T


def check_redirect(ctx, prog):
    F = prog.fn("parse_redirect")
    I = new_interp(prog)
    I.K = sorted(set(I.K) | {11})
    I.Kset = set(I.K)
    I.TOP_INT = frozenset(I.K) | {"NEG", "POS"}
    states, R, T = redirect_cases(prog, I, F)
    I.MAX_STATES = 20000
    res = I.run(F, states)
    ctx.stats("E-ABS", I.stats)
    EINVAL = prog.const("REPROC_EINVAL")
    Tinv = {v: k for k, v in T.items()}
    by_case = {}
    for st, rv in res.exits:
        by_case.setdefault(st.mon["case"], []).append((st, rv))
    accepted = {}
    nbad = 0
    shown = 0
    for st0 in states:
        case = st0.mon["case"]
        outs = by_case.get(case, [])
        want = oracle_redirect(*case)
        if len(outs) != 1:
            ctx.ob("C13.A2", "parse_redirect %s" % (case,), "the validator gives one verdict for this abstract input", False,
                   {"verdicts": len(outs)}, nontrivial=True)
            continue
        st, rv = outs[0]
        typ_after = st.mem.get(("f", R, "type"))
        eff = Tinv.get(next(iter(typ_after))) if typ_after and len(typ_after) == 1 else None
        if rv == fs(EINVAL):
            got = ("reject",)
        elif rv == fs(0):
            kept = None
            if eff == "HANDLE":
                kept = "handle" if st.mem.get(("f", R, "handle")) == fs(("uh", "h")) else None
            elif eff == "FILE":
                fv = st.mem.get(("f", R, "file"))
                kept = "file" if fv == fs(("str", "<file>")) else "shorthand" if fv == fs(("str", "<shorthand file>")) else None
            elif eff == "PATH":
                pv = st.mem.get(("f", R, "path"))
                kept = "path" if pv == fs(("str", "<path>")) else "shorthand" if pv == fs(("str", "<shorthand path>")) else None
            got = ("accept", eff, kept)
            accepted[case] = (st, eff)
        else:
            got = ("other", show(rv))
        ok = want == ("any",) or got == want
        if not ok:
            nbad += 1
        # record every case as an obligation but keep the evidence small: failures always, successes sampled
        if not ok or shown < 40 or case[1] == "STDOUT":
            shown += 1
            desc = "stream=%s type=%s handle=%d file=%d path=%d parent=%d discard=%d file-shorthand=%d path-shorthand=%d" % case
            ctx.ob("C13.A2", "parse_redirect [" + desc + "]", "the validator's verdict (reject with the invalid-argument error, or accept "
                   "with this effective type keeping this payload) equals the documented rule", ok,
                   {"documented": list(want), "code": list(got)}, nontrivial=True)
    total = len(states)
    ctx.extra["abstract_inputs_parse_redirect"] = total
    ctx.extra["mismatches_parse_redirect"] = nbad
    ctx.ob("C13.A2x", "parse_redirect: all %d abstract inputs" % total, "every abstract input was evaluated and compared with the oracle "
           "(individual mismatches are listed as C13.A2 violations)", nbad == 0 and len(by_case) == total,
           {"evaluated": len(by_case), "mismatches": nbad}, nontrivial=True)
    ctx.exhaustive = True
    return accepted, R, T, I


def check_streams_composition(ctx, prog):
    """A2c: parse_options as a whole (real parse_redirect inlined): each stream is validated with its own tag, the
    parent/discard shorthands apply to all three, the file/path shorthands to stdout and stderr only.  Checked
    semantically, so a table-driven rewrite of the three calls is fine as long as it validates the same way."""
    F = prog.fn("parse_options")
    I = new_interp(prog)
    I.MAX_STATES = 50000
    I.widen = False         # a table-driven loop over the three streams is unrolled exactly
    p = {x["name"]: ("v", F.gdid(x["did"])) for x in F.params}
    O = ("g", "options_under_test")
    AV = ("g", "argv_under_test")
    T = {t: I.abs_int(prog.const("REPROC_REDIRECT_" + t)) for t in TYPES}
    Tinv = {v: k for k, v in T.items()}
    # per stream: unset / explicit PIPE / explicit STDOUT / handle set / path set
    per = [("DEFAULT", 0, 0, 0), ("PIPE", 0, 0, 0), ("STDOUT", 0, 0, 0), ("DEFAULT", 1, 0, 0), ("DEFAULT", 0, 0, 1)]
    states = []
    combos = list(itertools.product(per, repeat=3))
    if ctx.tier == "thorough":
        # additionally: every type x payload combination (72) for one stream at a time, the others unset: 3 x 72 x 16 states
        full = [(t, h, f, pa) for t in TYPES + ["OOR"] for h in (0, 1) for f in (0, 1) for pa in (0, 1) if t != "OOR"]
        unset = ("DEFAULT", 0, 0, 0)
        for k in range(3):
            for x in full:
                cb = [unset, unset, unset]
                cb[k] = x
                if tuple(cb) not in combos:
                    combos.append(tuple(cb))
    unset = ("DEFAULT", 0, 0, 0)
    cases = [(sh, combo, 0) for sh in itertools.product((0, 1), repeat=4) for combo in combos]
    # start-up input given: only a stdin that resolves to a pipe is acceptable, whatever makes it resolve otherwise
    cases += [(sh, (x, unset, unset), 1) for sh in itertools.product((0, 1), repeat=4) for x in per]
    for sh, combo, data in cases:
        parent, discard, fsh, psh = sh
        for _ in (0,):
            st = State()
            st.mon["nofail"] = True
            st.mem[p["options"]] = fs(("addr", O))
            red = ("f", O, "redirect")
            for name, (typ, h, f, pa) in zip(("in", "out", "err"), combo):
                c0 = ("f", red, name)
                st.mem[("f", c0, "type")] = fs(T[typ])
                st.mem[("f", c0, "handle")] = fs(("uh", "h")) if h else fs(0)
                st.mem[("f", c0, "file")] = fs(("str", "<file>")) if f else fs("NULL")
                st.mem[("f", c0, "path")] = fs(("str", "<path>")) if pa else fs("NULL")
            st.mem[("f", red, "parent")] = fs(parent)
            st.mem[("f", red, "discard")] = fs(discard)
            st.mem[("f", red, "file")] = fs(("str", "<shorthand file>")) if fsh else fs("NULL")
            st.mem[("f", red, "path")] = fs(("str", "<shorthand path>")) if psh else fs("NULL")
            st.mem[("f", ("f", O, "input"), "data")] = fs(("str", "<data>")) if data else fs("NULL")
            st.mem[("f", ("f", O, "input"), "size")] = I.pos() if data else fs(0)
            st.mem[("f", O, "fork")] = fs(0)
            st.mem[("f", O, "deadline")] = fs(0)
            if "argv" in p:
                st.mem[p["argv"]] = fs(("addr", ("i", AV, 0)))
                st.mem[("i", AV, 0)] = fs("PTR")
            st.mon["case"] = (sh, combo, data)
            states.append(st)
    res = I.run(F, states)
    ctx.stats("E-ABS", I.stats)
    EINVAL = prog.const("REPROC_EINVAL")
    by = {}
    for st, rv in res.exits:
        by.setdefault(st.mon["case"], []).append((st, rv))
    bad = 0
    shown = 0
    for st0 in states:
        sh, combo, data = st0.mon["case"]
        parent, discard, fsh, psh = sh
        want = []
        for stream, (typ, h, f, pa) in zip(("IN", "OUT", "ERR"), combo):
            want.append(oracle_redirect(stream, typ, h, f, pa, parent, discard, 0 if stream == "IN" else fsh, 0 if stream == "IN" else psh))
        want_reject = any(w == ("reject",) for w in want)
        if data and not want_reject and want[0][1] != "PIPE":
            want_reject = True       # start-up input combined with a stdin that does not resolve to a pipe
        outs = by.get((sh, combo, data), [])
        verdicts = set()
        for st, rv in outs:
            if rv == fs(EINVAL):
                verdicts.add(("reject",))
            elif rv == fs(0):
                effs = []
                for name in ("in", "out", "err"):
                    tv = st.mem.get(("f", ("f", ("f", O, "redirect"), name), "type"))
                    effs.append(Tinv.get(one(tv)))
                verdicts.add(("accept",) + tuple(effs))
            else:
                verdicts.add(("other", show(rv)))
        got = sorted(verdicts)
        if want_reject:
            ok = verdicts == {("reject",)}
        else:
            ok = verdicts == {("accept",) + tuple(w[1] for w in want)}
        if not ok:
            bad += 1
        if not ok or shown < 12:
            shown += 1
            ctx.ob("C13.A2c", "parse_options [parent=%d discard=%d file=%d path=%d | in=%s out=%s err=%s%s]" % (
                   sh + tuple("/".join(map(str, x)) for x in combo) + (" | start-up input" if data else "",)),
                   "validating the whole options object gives, per stream, the documented verdict: shorthands parent/discard apply to all "
                   "three streams, file/path only to stdout and stderr", ok,
                   {"documented": "reject" if want_reject else [w[1] for w in want], "code": got}, nontrivial=True)
    ctx.extra["abstract_inputs_parse_options_streams"] = len(states)
    ctx.ob("C13.A2cx", "parse_options: all %d stream/shorthand combinations" % len(states), "all evaluated and compared with the oracle",
           bad == 0 and len(by) == len(states), {"mismatches": bad}, nontrivial=True)


def one(v):
    return next(iter(v)) if v is not None and len(v) == 1 else None


def check_parse_options(ctx, prog, accepted_redirect):
    F = prog.fn("parse_options")
    # (d) cross-field rules, exhaustive over their abstract inputs, parse_redirect replaced by accept/reject
    PIPE = prog.const("REPROC_REDIRECT_PIPE")
    PARENT = prog.const("REPROC_REDIRECT_PARENT")

    def o_pr(I, fn, n, args, st):
        rej = st.copy()
        rej.mon["redirect_rejected"] = True
        return [(rej, fs(prog.const("REPROC_EINVAL"))), (st, fs(0))]
    I = new_interp(prog, overrides={"parse_redirect": o_pr})
    narrowed = []

    def cast_hook(I_, fn, node, ft, tt, v, st):
        wide = any(w in ft for w in ("long", "size_t", "int64", "ssize_t"))
        small = tt in ("int", "unsigned int", "short", "unsigned short", "char", "unsigned char", "signed char", "_Bool")
        if wide and small and any(a in ("POS", "NEG") for a in v):
            narrowed.append((site_of(fn, node), ft, tt))
    I.hooks_cast.append(cast_hook)
    p = {x["name"]: ("v", F.gdid(x["did"])) for x in F.params}
    O = ("g", "options_under_test")
    AV = ("g", "argv_under_test")
    states = []
    # what the caller asked for and validation has no business changing (only unset redirects, a zero deadline and an all-noop stop
    # policy are documented as being filled in)
    KEEP = {"working_directory": fs(("str", "<working directory>")), "env.extra": fs(("str", "<extra>")), "nonblocking": fs(1)}
    altered = set()
    for data, size, intype, fork, argv, deadline in itertools.product((0, 1), (0, 1), ("PIPE", "OTHER"), (0, 1), ("null", "empty", "ok"), (0, 1)):
        st = State()
        st.mon["nofail"] = True
        st.mem[p["options"]] = fs(("addr", O))
        st.mem[("f", ("f", O, "input"), "data")] = fs(("str", "<data>")) if data else fs("NULL")
        st.mem[("f", ("f", O, "input"), "size")] = I.pos() if size else fs(0)
        st.mem[("f", ("f", ("f", O, "redirect"), "in"), "type")] = fs(PIPE if intype == "PIPE" else PARENT)
        st.mem[("f", O, "fork")] = fs(fork)
        st.mem[("f", O, "deadline")] = I.pos() if deadline else fs(0)
        for fld, val in KEEP.items():
            c_ = O
            for part in fld.split("."):
                c_ = ("f", c_, part)
            st.mem[c_] = val
        if "argv" not in p:
            pass
        elif argv == "null":
            st.mem[p["argv"]] = fs("NULL")
        else:
            st.mem[p["argv"]] = fs(("addr", ("i", AV, 0)))
            st.mem[("i", AV, 0)] = fs("NULL") if argv == "empty" else fs("PTR")
        st.mon["case"] = (data, size, intype, fork, argv, deadline)
        states.append(st)
    res = I.run(F, states)
    ctx.stats("E-ABS", I.stats)
    EINVAL = prog.const("REPROC_EINVAL")
    INF = prog.const("REPROC_INFINITE")
    by = {}
    for st, rv in res.exits:
        by.setdefault(st.mon["case"], []).append((st, rv))
    for st0 in states:
        case = st0.mon["case"]
        data, size, intype, fork, argv, deadline = case
        reject = (data and intype != "PIPE") or (size and not data)
        if "argv" in p:
            reject = reject or (fork and argv != "null") or (not fork and argv != "ok")
        outs = [(s, rv) for s, rv in by.get(case, []) if not s.mon.get("redirect_rejected")]
        accepts = [(s, rv) for s, rv in outs if rv == fs(0)]
        rejects = [(s, rv) for s, rv in outs if rv == fs(EINVAL)]
        others = [rv for s, rv in outs if rv not in (fs(0), fs(EINVAL))]
        if reject:
            ok = not accepts and not others and rejects
        else:
            ok = len(accepts) >= 1 and not others and not rejects
            for s, _ in accepts:
                dv = s.mem.get(("f", O, "deadline"))
                ok = ok and ((dv == fs(INF)) if not deadline else (dv == I.pos()))
                for fld, val in KEEP.items():
                    c_ = O
                    for part in fld.split("."):
                        c_ = ("f", c_, part)
                    if s.mem.get(c_) != val:
                        altered.add("%s: %s" % (fld, show(s.mem.get(c_))[:40]))
        ctx.ob("C13.A2o", "parse_options [input.data=%d size>0=%d stdin=%s fork=%d argv=%s deadline>0=%d]" % case,
               "start-up input needs a piped stdin and data for a size; fork mode needs argv == NULL and normal mode a non-empty argv; "
               "everything else is accepted and a zero deadline becomes 'none'", ok,
               {"documented": "reject" if reject else "accept", "code": sorted({show(rv) for s, rv in outs})}, nontrivial=True)
    ctx.floor("C13.A2o", 96)
    ctx.ob("C13.A2k", "parse_options: what it leaves alone", "validation accepts the request as given: working directory, extra environment "
           "and the nonblocking flag come out of it unchanged (a value start would otherwise have to fail on - an unusable directory - "
           "must not be turned into 'not set')", not altered, {"altered": sorted(altered)[:4]}, nontrivial=True)
    ctx.ob("C13.A2n", "parse_options: width of the values tested", "no 64-bit option value (the input size) is narrowed to 32 bits before it is "
           "tested - a size that is a multiple of 2^32 would otherwise pass for zero", not narrowed, {"narrowing_casts": sorted(set(narrowed))[:4]},
           nontrivial=True)
    if "argv" not in p:
        check_forkargv_in_start(ctx, prog)
    return I


def check_forkargv_in_start(ctx, prog):
    """parse_options does not see argv: the fork/argv consistency clause must then be decided in reproc_start itself, before
    anything is created.  reproc_start is run for the six (fork, argv) cases with a slim stand-in for parse_options (accepts,
    all three streams piped); in the four disagreeing cases no effect event may occur and the return value must be the
    invalid-argument error."""
    F = prog.fn("reproc_start")
    PIPE = prog.const("REPROC_REDIRECT_PIPE")

    def o_po(I, fn, n, args, st):
        ev(I, "parse_options", fn, n, args, st)
        s = st.copy()
        s.mon["parsed"] = True
        for t in targets(I, args[0]):
            for stream in ("in", "out", "err"):
                s.mem[("f", ("f", ("f", t, "redirect"), stream), "type")] = fs(PIPE)
            s.mem[("f", ("f", t, "input"), "data")] = fs("NULL")
            s.mem[("f", ("f", t, "input"), "size")] = fs(0)
            s.mem[("f", t, "deadline")] = fs(prog.const("REPROC_INFINITE"))
        return [(s, fs(0))]
    ov = dict(S.HEAP_HELPERS)
    ov["process_start"] = S.o_process_start
    ov["parse_options"] = o_po
    I = new_interp(prog, overrides=ov)
    pr = {x["name"]: ("v", F.gdid(x["did"])) for x in F.params}
    AV = ("g", "argv_under_test")
    EINVAL = prog.const("REPROC_EINVAL")
    n = 0
    for fork, argv in itertools.product((0, 1), ("null", "empty", "ok")):
        st = State()
        S.not_started_object(prog, F, st)
        st.mem[("f", pr["options"], "fork")] = fs(fork)
        if argv == "null":
            st.mem[pr["argv"]] = fs("NULL")
        else:
            st.mem[pr["argv"]] = fs(("addr", ("i", AV, 0)))
            st.mem[("i", AV, 0)] = fs("NULL") if argv == "empty" else fs("PTR")
        res = I.run(F, [st])
        disagree = (fork and argv != "null") or (not fork and argv != "ok")
        if not disagree:
            continue
        effects = sorted({(e[0], site_of(e[1], e[2])) for e in res.events if e[0] in R_OS})
        rets = {show(rv) for s_, rv in res.exits}
        n += 1
        ctx.ob("C13.A2f", "reproc_start [fork=%d argv=%s]" % (fork, argv), "fork mode with an argument vector, or normal mode without a "
               "program, is rejected with the invalid-argument error before any pipe, file, allocation or process is created "
               "(the validator itself does not see argv in this tree, so start has to do it)",
               not effects and all(rv == fs(EINVAL) for s_, rv in res.exits) and res.exits,
               {"effects_before_rejection": effects[:6], "returns": sorted(rets)[:4]}, nontrivial=True)
    ctx.stats("E-ABS", I.stats)


def check_purity(ctx, prog):
    """A1: the validator has no effect outside its options object"""
    F = prog.fn("parse_options")
    I = new_interp(prog)
    I.MAX_STATES = 30000
    I.widen = False
    p = {x["name"]: ("v", F.gdid(x["did"])) for x in F.params}
    O = ("g", "options_under_test")
    st = State()
    st.mon["nofail"] = True
    st.mem[p["options"]] = fs(("addr", O))
    # one representative type per stream keeps this run small; purity does not depend on the values
    for s in ("in", "out", "err"):
        st.mem[("f", ("f", ("f", O, "redirect"), s), "type")] = fs(0)
    res = I.run(F, [st])
    ctx.stats("E-ABS", I.stats)
    effects = [e for e in res.events if e[0] in R_OS]
    stores = [e for e in res.events if e[0] in ("store-global", "store-input") and cell_base(e[3][0]) != O]
    unknown = [e for e in res.events if e[0] == "unknown-call"]
    ctx.ob("C13.A1p", "parse_options", "validation performs no system call, no allocation and stores nothing outside the options "
           "object it was given (which is start's private copy)", not effects and not stores and not unknown,
           {"effects": [(e[0], site_of(e[1], e[2])) for e in effects + stores + unknown][:5]}, nontrivial=True)
    sysc = set()
    # the validator = parse_options and everything of the library it reaches (whatever the helpers are called)
    todo, reach = ["parse_options"], set()
    while todo:
        nm = todo.pop()
        if nm in reach or nm not in prog.funcs:
            continue
        reach.add(nm)
        for n in prog.funcs[nm].walk():
            if n["k"] == "CallExpr" and n.get("callee"):
                if n["callee"] in prog.funcs:
                    todo.append(n["callee"])
                else:
                    sysc.add(n["callee"])
    prog.fn("parse_options")
    ctx.ob("C13.A1p", "validator call graph", "the validator functions call nothing outside the library", not sysc, {"external_calls": sorted(sysc)})


R_OS = ("fd-create", "alloc", "free", "close", "fork", "kill", "waitpid", "read", "write", "poll", "dup2", "chdir", "exec", "sigmask",
        "sigaction", "fcntl", "getcwd", "process_start", "process_fork")


def check_order(ctx, prog):
    """A1: in reproc_start validation comes first and its failure touches nothing"""
    res, F, I, obj = SP.reproc_start_run(ctx, prog)
    before = []
    after_fail = []
    parsed_seen = False
    for e in res.events:
        kind, fn, n, info, st = e[:5]
        if kind == "parse_options":
            parsed_seen = True
            continue
        if kind in R_OS and st is not None:
            if not st.mon.get("parsed"):
                before.append((kind, site_of(fn, n)))
            if str(st.mon.get("failed", "")).startswith("parse_options"):
                after_fail.append((kind, site_of(fn, n)))
    if not parsed_seen:
        raise AnalysisBroken("C13.A1: reproc_start never calls parse_options")
    ctx.ob("C13.A1", "reproc_start: before validation", "no pipe, file, allocation or process is created before the options have been "
           "validated", not before, {"events": sorted(set(before))[:5]}, nontrivial=True)
    ctx.ob("C13.A1", "reproc_start: validation failed", "when validation fails nothing is created, closed or freed afterwards either "
           "(the exit block only meets invalid markers)", not after_fail, {"events": sorted(set(after_fail))[:5]}, nontrivial=True)
    EINVAL = prog.const("REPROC_EINVAL")
    for st, rv in res.exits:
        if str(st.mon.get("failed", "")).startswith("parse_options"):
            ctx.ob("C13.A1r", "reproc_start: validation failed -> return", "the validator's error is what start returns", all_neg(rv), {"returns": show(rv)[:40]},
                   nontrivial=True)
            break


def check_summary(ctx, prog, accepted, R, T):
    """C13.S: every accepted post-state of the real validator is an instance of the parse_options summary used by
    C04/C05/C10/C14 (so those analyses quantify over at least what the validator lets through)"""
    plain = {"PIPE", "PARENT", "DISCARD"}
    n = 0
    bad = []
    for case, (st, eff) in accepted.items():
        stream = case[0]
        if case[1] == "OOR":
            continue
        ok = False
        if eff in plain or (eff == "STDOUT" and stream == "ERR"):
            ok = True
        elif eff == "HANDLE":
            ok = st.mem.get(("f", R, "handle")) == fs(("uh", "h"))
        elif eff == "FILE":
            ok = st.mem.get(("f", R, "file")) not in (None, fs("NULL"))
        elif eff == "PATH":
            ok = st.mem.get(("f", R, "path")) not in (None, fs("NULL"))
        n += 1
        if not ok:
            bad.append((case, eff))
    ctx.ob("C13.S", "parse_options summary", "every state the validator accepts has, per stream, a constructible effective type "
           "(STDOUT only for stderr) whose payload is set - the assumption under which the start path is analysed", not bad and n > 100,
           {"accepted_states": n, "outside_summary": [str(x) for x in bad[:5]]}, nontrivial=True)
    # out-of-range types: the summary does not cover them; they must be rejected later without side effects (C04/C05 analyse
    # redirect_init's default arm); here: the constructor's default arm returns the invalid-argument error
    F = prog.fn("redirect_init")
    sw = [x for x in F.walk() if x["k"] == "SwitchStmt"]
    ctx.ob("C13.Sx", "redirect_init: out-of-range type", "a type outside the enum that slips through validation is rejected by the "
           "constructor with the invalid-argument error before it creates anything", len(sw) == 1 and
           any(x["k"] == "VarDecl" and x["name"] == "r" and strip(x["c"][0]).get("name") == "REPROC_EINVAL" for x in F.walk()), None)


def check(ctx):
    prog = ctx.prog("posix-mt")
    F = prog.fn("parse_redirect")
    have = {x["name"] for x in F.params}
    accepted = None
    if {"redirect", "stream", "parent", "discard", "file", "path"} <= have:
        accepted, R, T, I = check_redirect(ctx, prog)
    else:
        # the per-stream helper has another interface: its table cannot be evaluated in isolation.  The whole-validator runs below
        # (which do not depend on the helper's signature) still decide; if they find nothing there is no verdict (exit 2).
        ctx.floor_failures.append("C13.A2: parse_redirect no longer takes (redirect, stream, parent, discard, file, path); the per-stream "
                                  "table and the parse_options summary check (C13.S) were not evaluated")
    check_streams_composition(ctx, prog)
    check_parse_options(ctx, prog, accepted)
    check_purity(ctx, prog)
    check_order(ctx, prog)
    if accepted is not None:
        check_summary(ctx, prog, accepted, R, T)
