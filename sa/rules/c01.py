"""C01 - exit status is reported exactly, stays stable, and the child is reaped once."""
from ..facts import AnalysisBroken, strip, expr_str
from ..absint import walk_nodes
from ..rulelib import *
from .. import apirules as R
from .. import apimodel as A
from ..models import fs

EXPLANATION = (
    "Static analysis: object-invariant abstract interpretation of reproc_wait / reproc_stop / reproc_terminate / reproc_kill / "
    "reproc_destroy from every handle state (all CFG paths; waitpid/poll/kill failing, interrupted and succeeding). Decides the "
    "typestate part: a non-negative status is returned only on paths where waitpid succeeded on the handle's pid (blocking, "
    "options 0, so only a terminated child is reported) and the handle becomes 'exited' with that same value cached; from the "
    "exited state wait and stop return the cached value with no system call; no path reaps twice or leaves a running handle "
    "without a valid exit pipe. Plus table agreement for the decoder: the wait status word is read only through "
    "WIFEXITED/WEXITSTATUS/WTERMSIG and the signal offset equals REPROC_SIGKILL-SIGKILL = REPROC_SIGTERM-SIGTERM. Not decided: "
    "that the kernel and <sys/wait.h> deliver the right status for each of the 256 x 31 values. When the tree reaps with waitid() instead, the decoder is evaluated for a child that exited, was killed, or was killed with a core dump (C01.R5w).")
ASSUMPTIONS = [
    "clang 14 parser/CFG and the fact extractor are correct", "libc models in sa/models.py; waitpid(pid, &s, 0) returns only for a terminated child",
    "the W* macros of <sys/wait.h> decode the status word correctly",
]


def sent_signals(ctx, prog):
    """the signal numbers that reach kill() from reproc_kill / reproc_terminate (read off the all-paths runs, so helpers do not matter)"""
    out = []
    for f in ("reproc_kill", "reproc_terminate"):
        res, F, I = R.run(ctx, prog, f)
        vals = set()
        for e in R.ev_of(res, ("kill",)):
            sv = e[3][1]
            vals.add(next(iter(sv)) if sv is not None and len(sv) == 1 and isinstance(next(iter(sv)), int) else None)
        out.append(sorted(vals, key=str))
    return out[0], out[1]


def decode_rules(ctx, prog):
    # the consumer of waitpid's status out-parameter
    consumers = []
    for F, n in callsites(prog, "waitpid"):
        arg = strip(n["c"][2])
        if arg["k"] == "UnaryOperator" and arg["op"] == "&":
            var = strip(arg["c"][0])
            if var["k"] == "DeclRefExpr":
                consumers.append((F, n, var["name"]))
    wid = list(callsites(prog, "waitid"))
    if not consumers and len(wid) == 1:
        return decode_rules_waitid(ctx, prog, *wid[0])
    if len(consumers) != 1:
        raise AnalysisBroken("C01.R5: expected exactly one waitpid call that collects the status word, found %d" % len(consumers))
    F, call, var = consumers[0]
    # the status variable flows (only) into the decoder call in the return
    uses = [x for x in F.walk() if x["k"] == "DeclRefExpr" and x["name"] == var and x["id"] not in {y["id"] for y in walk_nodes(call)}]
    dec = None
    for u in uses:
        for a in F.ancestors(u):
            if a["k"] == "CallExpr" and a.get("callee") in prog.funcs:
                dec = a.get("callee")
    ctx.ob("C01.R5f", "%s: %s" % (F.name, var), "the status word filled by waitpid is handed to one decoder function and nothing else",
           dec is not None and len(uses) == 1, {"uses": len(uses), "decoder": dec})
    if dec is None:
        return
    D = prog.fn(dec)
    pname = D.params[0]["name"]
    allowed = {"WIFEXITED", "WEXITSTATUS", "WTERMSIG", "WIFSIGNALED"}
    bad = []
    used = set()
    for x in D.walk():
        if x["k"] == "DeclRefExpr" and x["name"] == pname:
            ms = set(x.get("m", []))
            if not (ms & allowed):
                bad.append(x["l"])
            used |= ms & allowed
    ctx.ob("C01.R5m", "%s(%s)" % (dec, pname), "the status word is read only inside expansions of the libc wait macros "
           "(WIFEXITED / WEXITSTATUS / WTERMSIG / WIFSIGNALED)", not bad and used, {"macros": sorted(used), "raw_reads": bad})
    shape_ok = ("WEXITSTATUS" in used and "WTERMSIG" in used and ("WIFEXITED" in used or "WIFSIGNALED" in used))
    ctx.ob("C01.R5m", "%s: macros" % dec, "exit code comes from WEXITSTATUS and the signal number from WTERMSIG, selected by "
           "WIFEXITED/WIFSIGNALED", shape_ok, {"macros": sorted(used)})
    # offset: the constant added next to WTERMSIG
    offs = []
    for x in D.walk():
        if x["k"] == "BinaryOperator" and x["op"] == "+":
            a, b = x["c"]
            for p, q in ((a, b), (b, a)):
                if any("WTERMSIG" in y.get("m", []) for y in walk_nodes(p)) and const_of(prog, q) is not None \
                        and not any("WTERMSIG" in y.get("m", []) for y in walk_nodes(q)):
                    offs.append(const_of(prog, q))
    sigkill, sigterm = sent_signals(ctx, prog)
    ok = len(set(offs)) == 1 and len(sigkill) == 1 and len(sigterm) == 1 and \
        prog.const("REPROC_SIGKILL") == offs[0] + sigkill[0] and prog.const("REPROC_SIGTERM") == offs[0] + sigterm[0]
    ctx.ob("C01.R5o", "%s: signal offset" % dec, "a signalled child is reported as offset + signal number, and the exported constants "
           "REPROC_SIGKILL / REPROC_SIGTERM equal offset + the signals the library itself sends", ok,
           {"offset": offs, "SIGKILL": sigkill, "SIGTERM": sigterm, "REPROC_SIGKILL": prog.const("REPROC_SIGKILL"),
            "REPROC_SIGTERM": prog.const("REPROC_SIGTERM")})
    ctx.ob("C01.R5o", "offset = 128", "the offset is 128 (the documented 128 + signal convention)", offs and offs[0] == 128, {"offset": offs})


def decode_rules_waitid(ctx, prog, F, call):
    """the tree reaps with waitid(): the decoder is evaluated for the three ways a child can end (CLD_EXITED, CLD_KILLED,
    CLD_DUMPED) with a representative exit code / signal number each"""
    from ..absint import State, Interp
    from ..models import WAITID_SAMPLE
    base = new_interp(prog)
    want = {"exited": WAITID_SAMPLE["exited"], "killed": 128 + WAITID_SAMPLE["killed"], "dumped": 128 + WAITID_SAMPLE["dumped"]}
    K = set(base.K) | set(WAITID_SAMPLE.values()) | set(want.values()) | {128}
    I = new_interp(prog, K=K)
    st = State()
    st.mon["waitid_concrete"] = True
    pid = ("pid", "handle", 0)
    st.res[pid] = ("running",)
    for p in F.params:
        st.mem[("v", F.gdid(p["did"]))] = fs(pid)
    res = I.run(F, [st])
    ctx.stats("E-ABS", I.stats)
    got = {}
    for s, rv in res.exits:
        k = s.mon.get("wait_kind")
        if k:
            got.setdefault(k, set()).add(show(rv))
    for k in ("exited", "killed", "dumped"):
        ctx.ob("C01.R5w", "%s: child %s%s" % (F.name, k, " (core written)" if k == "dumped" else ""),
               "a child that exited with code c is reported as c, a child ended by signal s - with or without a core dump - as 128 + s "
               "(evaluated for c = %d, s = %d / %d)" % (WAITID_SAMPLE["exited"], WAITID_SAMPLE["killed"], WAITID_SAMPLE["dumped"]),
               got.get(k) == {show(fs(want[k]))}, {"returns": sorted(got.get(k, [])), "expected": want[k]}, nontrivial=True)
    sigkill, sigterm = sent_signals(ctx, prog)
    ok = len(sigkill) == 1 and len(sigterm) == 1 and prog.const("REPROC_SIGKILL") == 128 + sigkill[0] and prog.const("REPROC_SIGTERM") == 128 + sigterm[0]
    ctx.ob("C01.R5o", "signal offset", "the exported constants REPROC_SIGKILL / REPROC_SIGTERM equal 128 + the signals the library itself sends",
           ok, {"SIGKILL": sigkill, "SIGTERM": sigterm})


def wait_rules(ctx, prog):
    for f in ("reproc_wait", "reproc_stop"):
        res, F, I = R.run(ctx, prog, f)
        seen = set()
        for st, rv in res.exits:
            lab = st.mon.get("shape")
            sh0 = R.shape_of(lab)
            sh1, why = A.classify(prog, I, st)
            status = st.mem.get(A.fcell("status"))
            key = (sh0, sh1, may_nonneg(rv), show(rv) == show(status))
            if key in seen:
                continue
            seen.add(key)
            if sh0 == "EXITED":
                ctx.ob("C01.R3", "%s [exited]" % f, "once a status has been returned, %s returns the cached status (or, for stop, an "
                       "argument error) and the handle is unchanged" % f, sh1 == "EXITED" and (rv == status or all_neg(rv) and f == "reproc_stop"),
                       {"returns": show(rv)[:60], "status": show(status)[:60]}, nontrivial=True)
            elif sh0 == "RUN":
                if may_nonneg(rv):
                    ok = all_nonneg(rv) and sh1 == "EXITED" and rv == status and st.res.get(A.PID) == ("reaped",)
                    ctx.ob("C01.R3", "%s [running -> status]" % f, "a non-negative result means waitpid succeeded on the child: the "
                           "child is reaped, the handle is exited, and the returned value is the value cached", ok,
                           {"returns": show(rv)[:60], "status": show(status)[:60], "child": st.res.get(A.PID), "shape": sh1, "why": why}, nontrivial=True)
                else:
                    ok = sh1 == "RUN" and st.res.get(A.PID) in (("running",), ("gone",))
                    ctx.ob("C01.R3n", "%s [running -> error]" % f, "an error result leaves the child unreaped and the handle running with "
                           "its exit pipe still valid, so a later wait can still collect the status", ok,
                           {"returns": show(rv)[:60], "shape": sh1, "why": why, "child": st.res.get(A.PID)}, nontrivial=True)
        evs = R.ev_of(res, R.OS_EVENTS, "EXITED")
        ctx.ob("C01.R3s", "%s [exited]" % f, "from the exited state no system call is made (the cached value is returned immediately)",
               not evs, {"calls": [site_of(e[1], e[2]) for e in evs][:3]}, nontrivial=True)
        dr = R.ev_of(res, ("double-reap",))
        ctx.ob("C01.R4d", f, "the child is never reaped twice", not dr, None, nontrivial=True)
        for e in R.ev_of(res, ("waitpid",)):
            kind, fn, node, info, st, stack = e[:6]
            ctx.ob("C01.R2", site_of(fn, node) + " via " + f, "the reap blocks for termination only (waitpid options == 0 / waitid options == WEXITED: no WNOHANG / "
                   "WUNTRACED / WCONTINUED), so no status can be produced for a running or stopped child", info[1] == fs(0),
                   {"options": show(info[1])}, nontrivial=True)
    ctx.floor("C01.R3", 3)
    ctx.floor("C01.R2", 2)
    # status writers
    writers = {}
    for Fn in prog.funcs_all:
        for node in Fn.nodes.values():
            if node["k"] in ("BinaryOperator", "CompoundAssignOperator") and node.get("op", "").endswith("=") and node["op"] not in ("==", "!=", "<=", ">="):
                fp = field_path(node["c"][0])
                if fp and fp[1] == ["status"] and Fn.file.endswith("reproc.c"):
                    writers.setdefault(Fn.name, []).append(expr_str(node)[:60])
    ctx.ob("C01.R4", "struct reproc_t.status", "the status field is written only by reproc_new, reproc_start and reproc_wait",
           set(writers) <= {"reproc_new", "reproc_start", "reproc_wait"} and "reproc_wait" in writers, {"writers": writers})
    for F2, n in callsites(prog, "waitpid"):
        ctx.ob("C01.R1", site_of(F2, n), "waitpid is called only to reap the handle's child (process_wait) or a child that failed to "
               "start (process_fork / process_start)", F2.name in ("process_wait", "process_fork", "process_start"), {"line": n["l"][0]})
        ctx.ob("C01.R2", site_of(F2, n), "options argument is the constant 0", const_of(prog, n["c"][3]) == 0, None)
    for name in ("wait", "wait3", "wait4"):
        for F2, n in callsites(prog, name):
            ctx.ob("C01.R1", site_of(F2, n), "no other reaping primitive is used", False, None)
    for F2, n in callsites(prog, "waitid"):
        ctx.ob("C01.R1", site_of(F2, n), "waitid is called only to reap the handle's child (process_wait) or a child that failed to "
               "start, by pid", F2.name in ("process_wait", "process_fork", "process_start") and const_of(prog, n["c"][1]) == 1, {"line": n["l"][0]})
        ctx.ob("C01.R2", site_of(F2, n), "options argument is exactly WEXITED", const_of(prog, n["c"][4]) == 4, None)
    ctx.floor("C01.R1", 3)


def check(ctx):
    prog = ctx.prog("posix-mt")
    decode_rules(ctx, prog)
    wait_rules(ctx, prog)
    # terminate / kill after a successful wait send nothing (shared with C06)
    for f in ("reproc_terminate", "reproc_kill"):
        res, F, I = R.run(ctx, prog, f)
        evs = R.ev_of(res, ("kill", "waitpid"), "EXITED")
        ok = not evs and all(rv == fs(0) for st, rv in res.exits if R.shape_of(st.mon.get("shape")) == "EXITED")
        ctx.ob("C01.R6", "%s [exited]" % f, "after a status has been returned, %s succeeds without sending anything" % f, ok, None, nontrivial=True)
