"""C17 - nonblocking mode never blocks; blocking calls wait only for the child (narrow)."""
from ..facts import AnalysisBroken, strip, expr_str
from ..absint import State, walk_nodes
from ..models import fs, ev
from ..rulelib import *
from .. import apimodel as A
from .. import startpath as SP
from . import c02

EXPLANATION = (
    "Static analysis (whether read/write on an O_NONBLOCK descriptor return at once is the kernel's contract and is not decided). "
    "Decided: (N0) the mode helper sets/clears exactly O_NONBLOCK via F_GETFL/F_SETFL on its descriptor and reports failures; "
    "(N1) for every stream the mode is applied, before the ends are handed out, to the very pipe end the parent receives - never "
    "to the child's end - with the caller's nonblocking value; (N2) the nonblocking option reaches all three stream constructors "
    "and is remembered in the handle; (N3) start-up input: nonblocking mode is set successfully before any write, any failed or "
    "would-block write fails start, success means written >= size (so input is delivered completely or start fails); "
    "(N4) reproc_read / reproc_write make at most one read()/write() per call, no poll, no retry loop, so their blocking "
    "behaviour is exactly the descriptor's mode; the only waits in start's parent side are the error-pipe read and the reap of "
    "a child that already reported failure. The mode helper is also checked semantically: whenever it reports success it has written the flags back to the descriptor it was given, whatever its number (N0w); a call without a model inside reproc_read / reproc_write (a lock, a sleep) counts as a waiting call (N4).")
ASSUMPTIONS = [
    "clang 14 parser/CFG and the fact extractor are correct",
    "read()/write() on an O_NONBLOCK pipe return at once (data, partial count, EOF/EPIPE or EAGAIN); on a blocking pipe they wait only for the peer",
]


def leaf_contract(ctx, prog):
    F = prog.fn("pipe_nonblocking")
    # N0, semantic: for flags with O_NONBLOCK clear / set and enable false / true, what F_SETFL receives on the same descriptor
    O_NONBLOCK = 0o4000
    from ..models import failed
    for init in (2, 2 | O_NONBLOCK):
        for en in (0, 1):
            seen_set = []

            def m_fcntl(I_, fn, n, args, st, init=init):
                if args[1] == fs(3):
                    return [(failed(st, fn, n), fs(-1)), (st, fs(init))]
                if args[1] == fs(4):
                    seen_set.append((args[0], args[2] if len(args) > 2 else None))
                    return [(failed(st, fn, n), fs(-1)), (st, fs(0))]
                return [(failed(st, fn, n), fs(-1)), (st, I_.nonneg())]
            I0 = new_interp(prog, extra_models={"fcntl": m_fcntl})
            I0.overrides.pop("pipe_nonblocking", None)
            I0.K = sorted(set(I0.K) | {2, O_NONBLOCK, 2 | O_NONBLOCK, ~O_NONBLOCK})
            I0.Kset = set(I0.K)
            I0.TOP_INT = frozenset(I0.K) | {"NEG", "POS"}
            st0 = State()
            st0.mem[("v", F.gdid(F.params[0]["did"]))] = fs(("fd", "under test", 0, 0))
            st0.res[("fd", "under test", 0, 0)] = ("open", True, "pipe-read")
            st0.mem[("v", F.gdid(F.params[1]["did"]))] = fs(en)
            I0.run(F, [st0])
            want = (init | O_NONBLOCK) if en else (init & ~O_NONBLOCK)
            ok = bool(seen_set) and all(fdv == fs(("fd", "under test", 0, 0)) and v == fs(want) for fdv, v in seen_set)
            ctx.ob("C17.N0", "pipe_nonblocking [flags %s O_NONBLOCK, enable=%d]" % ("with" if init & O_NONBLOCK else "without", en),
                   "the mode helper reads the status flags (F_GETFL) and writes them back (F_SETFL) to the same descriptor with O_NONBLOCK set "
                   "when enabling and exactly O_NONBLOCK cleared when disabling - also when the flag already has the requested value",
                   ok, {"F_SETFL_argument": [show(v) for fdv, v in seen_set], "expected": want}, nontrivial=True)
    I = new_interp(prog)
    I.overrides.pop("pipe_nonblocking", None)

    def setfl_hook(I_, fn, n, name, args, st):
        if name == "fcntl" and len(args) > 2 and args[1] == fs(4):
            s2 = st.copy()
            s2.mon["setfl"] = args[0]
            return s2
        return None
    I.hooks_call.append(setfl_hook)
    pc = ("v", F.gdid(F.params[0]["did"]))
    entries = []
    for en in (0, 1):
        st0 = State()
        st0.mem[pc] = I.nonneg()        # any descriptor number, 0, 1 and 2 included
        st0.mem[("v", F.gdid(F.params[1]["did"]))] = fs(en)
        st0.mon["given"] = st0.mem[pc]
        entries.append(st0)
    res = I.run(F, entries)
    for s, rv in res.exits:
        if not s.mon.get("failed"):
            ctx.ob("C17.N0w", "pipe_nonblocking [ok]", "whenever the helper reports success it has written "
                   "the flags back (F_SETFL) to the descriptor it was given - whatever its number (a pipe end may well be numbered 0, 1 or 2 "
                   "when the parent runs with those closed)", s.mon.get("setfl") is not None and s.mon.get("setfl") <= s.mon["given"],
                   {"F_SETFL_on": show(s.mon.get("setfl"))[:60] if s.mon.get("setfl") else None}, nontrivial=True)
        if s.mon.get("failed"):
            ctx.ob("C17.N0e", "pipe_nonblocking [fcntl fails]", "a failing fcntl is reported as a negative error", all_neg(rv), {"returns": show(rv)[:40]}, nontrivial=True)
        else:
            ctx.ob("C17.N0e", "pipe_nonblocking [ok]", "success returns 0", rv == fs(0), {"returns": show(rv)[:40]}, nontrivial=True)


def end_rules(ctx, prog):
    """N1: the mode goes on the end the parent keeps, with the caller's value, before the ends are published"""
    F = prog.fn("redirect_init")
    I = new_interp(prog)
    p = {x["name"]: ("v", F.gdid(x["did"])) for x in F.params}
    Rc, Pc, Cc = ("g", "redirect_under_test"), ("g", "parent_end"), ("g", "child_end")
    states = []
    for stream in ("IN", "OUT", "ERR"):
        for nb in (0, 1):
            st = State()
            st.mon["nofail"] = True
            st.mem[p["parent"]] = fs(("addr", Pc))
            st.mem[p["child"]] = fs(("addr", Cc))
            st.mem[p["stream"]] = fs(prog.const("REPROC_STREAM_" + stream))
            st.mem[p["redirect"]] = fs(("addr", Rc))
            st.mem[("f", Rc, "type")] = fs(prog.const("REPROC_REDIRECT_PIPE"))
            st.mem[p["nonblocking"]] = fs(nb)
            st.mon["case"] = (stream, nb)
            states.append(st)
    res = I.run(F, states)
    ctx.stats("E-ABS", I.stats)
    n = 0
    for st, rv in res.exits:
        if rv != fs(0):
            continue
        stream, nb = st.mon["case"]
        par, chi = st.mem.get(Pc), st.mem.get(Cc)
        pt = next(iter(par)) if par and len(par) == 1 else None
        ct = next(iter(chi)) if chi and len(chi) == 1 else None
        flagged = {k[1]: v for k, v in st.res.items() if k[0] == "nb"}
        # the child's end may be touched only to make it (stay) blocking
        ok = pt in flagged and flagged[pt] == fs(nb) and all(v == fs(0) for k, v in flagged.items() if k != pt)
        n += 1
        ctx.ob("C17.N1", "redirect_init [pipe for %s, nonblocking=%d]" % (stream, nb), "the requested mode is applied to the pipe end the "
               "parent receives (and only to it; the child's end is left in blocking mode)", ok,
               {"parent_end": show(par), "child_end": show(chi), "mode_set_on": {str(k): show(v) for k, v in flagged.items()}}, nontrivial=True)
    if n < 6:
        raise AnalysisBroken("C17.N1: only %d successful pipe constructions seen" % n)
    # failing to set the mode fails the constructor and leaks nothing (C04/C05 cover the leak part)
    I2 = new_interp(prog)
    st = states[0].copy()
    st.mon.pop("nofail", None)
    r2 = I2.run(F, [st])
    for s, rv in r2.exits:
        if str(s.mon.get("failed", "")).startswith("pipe_nonblocking") or "nonblocking" in str(s.mon.get("failed", "")):
            ctx.ob("C17.N1e", "redirect_init [setting the mode fails]", "the constructor fails", all_neg(rv), None, nontrivial=True)


def option_rules(ctx, prog):
    F = prog.fn("reproc_start")
    from . import c10
    calls, counts, handle_nb = c10.constructor_calls(ctx, prog)
    per = {}
    for nb, x, chk, site in calls:
        per.setdefault(x, []).append(bool(chk.get("nonblocking")))
    ok = set(per) == {"in", "out", "err"} and all(all(v) for v in per.values()) and bool(counts) and all(c == (1, 1, 1) for c in counts)
    ctx.ob("C17.N2", "reproc_start: the three constructors", "the nonblocking option (evaluated with the option off and on) is the value "
           "handed to the constructor of each of the three streams", ok, {"calls": {k: len(v) for k, v in per.items()}}, nontrivial=True)
    ok = bool(handle_nb) and all(v == fs(nb) for nb, v in handle_nb)
    ctx.ob("C17.N2s", "reproc_start: process->nonblocking", "after a successful start the handle remembers the mode that was asked for",
           ok, {"exits": len(handle_nb)}, nontrivial=True)


def inventory_rules(ctx, prog):
    """N4: at most one blocking-capable call per reproc_read / reproc_write, none of another kind"""
    for f, op in (("reproc_read", "read"), ("reproc_write", "write")):
        F = prog.fn(f)
        I = new_interp(prog)
        I.hooks_call.append(c02.count_hook(op))
        res = I.run(F, A.entry_states(prog, I, F, ("RUN", "EXITED", "NS")))
        ctx.stats("E-ABS", I.stats)
        worst = max([s.mon.get("n_" + op, 0) for s, rv in res.exits] + [0])
        other = sorted({e[0] for e in res.events if e[0] in ("poll", "waitpid", "read", "write", "kill", "fork") and e[0] != op})
        # calls the library models know nothing about: none is expected here; in particular nothing that can wait for another
        # thread or for time to pass (locks, condition variables, sleeps, select ...)
        other += sorted({"%s()" % e[3] for e in res.events if e[0] == "unknown-call"})
        ctx.ob("C17.N4", f, "a call makes at most one %s() and no other call that can wait (no poll, no retry loop), so it blocks or does "
               "not block exactly as the descriptor's mode says" % op, worst <= 1 and not other, {"max_%s_calls" % op: worst, "other_waiting_calls": other},
               nontrivial=True)
    # start, parent side: the only waiting calls are the error pipe read and the reap of a failed child
    rs, Fs, Is, pcell = SP.start_run(ctx, prog)
    kinds = {}
    for e in rs.events:
        if e[0] in ("read", "waitpid", "poll", "write") and e[4] is not None and e[4].mon.get("proc") != "child":
            kinds.setdefault(e[0], set()).add(site_of(e[1], e[2]))
    ok = set(kinds) <= {"read", "waitpid"}
    ctx.ob("C17.N4s", "process_start [parent side]", "in the parent, starting waits only in the error-pipe read (which ends when the child "
           "execs or fails) and in the reap of a child that already reported failure", ok, {k: sorted(v) for k, v in kinds.items()}, nontrivial=True)


def mode_changers(ctx, prog):
    """N5: the blocking mode of a pipe is decided when it is created (and forced for start-up input); no later call - poll, read,
    write, wait, stop, close ... - changes it behind the caller's back"""
    from .. import apirules as R
    for f in ("reproc_poll", "reproc_read", "reproc_write", "reproc_wait", "reproc_stop", "reproc_close", "reproc_terminate", "reproc_kill"):
        res, F, I = R.run_poll(ctx, prog) if f == "reproc_poll" else R.run(ctx, prog, f)
        ch = sorted({site_of(e[1], e[2]) for e in res.events if e[0] == "nonblocking" or
                     (e[0] == "fcntl" and len(e[3]) > 1 and e[3][1] == fs(4))})
        ctx.ob("C17.N5", f, "this call does not change the blocking mode of any pipe (F_SETFL / the mode helper are used at pipe "
               "creation and for start-up input only)", not ch, {"mode_changes": ch[:3]}, nontrivial=True)


def check(ctx):
    prog = ctx.prog("posix-mt")
    mode_changers(ctx, prog)
    leaf_contract(ctx, prog)
    end_rules(ctx, prog)
    option_rules(ctx, prog)
    c02.setup_input_rules(ctx, prog, rule="C17.N3")
    # "a blocking read waits only for the child": after a successful start the parent holds no copy of the child's ends - a write end
    # of the output pipe left open in the parent keeps a blocking read waiting (and a nonblocking one at would-block) for ever (C02.S5)
    c02.start_rules(ctx, prog)
    inventory_rules(ctx, prog)
