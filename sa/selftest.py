"""Thorough tier, part 2: the checker is tested both ways.

After the property has been checked on /repo itself (part 1, with the deeper settings of the thorough tier), the same
check is run (a) on scratch worktrees of /repo with one seeded breaking change applied each - the changes under
/verif/seeded that were written for this property, plus every other seeded change this check is known to catch -
and (b) on the pinned pre-fix revision when a genuine defect of this property was repaired by a `fix:` commit.
The result (caught / missed per change) is recorded in the evidence file.  It never produces VIOLATION lines and never
changes the verdict on /repo: a missed seed is a weakness of the checker to be reported, not a defect of reproc."""
import json
import os
import shutil
import subprocess
import sys
import tempfile
from concurrent.futures import ThreadPoolExecutor

from .facts import VERIF


def _run(args):
    from . import scratch
    label, kind, ref, prop = args
    out = {"change": label, "kind": kind}
    try:
        d, wt = scratch.make(patch=ref if kind == "seed" else None, rev=ref if kind == "revision" else None)
    except Exception as e:
        out["result"] = "could not prepare scratch copy: %s" % str(e)[-200:]
        return out
    try:
        env = dict(os.environ, REPO=wt, VERIF_WORK=os.path.join(d, "work"), VERIF_EVIDENCE_DIR=os.path.join(d, "ev"), VERIF_TIER="quick")
        r = subprocess.run([os.path.join(VERIF, "check"), prop, "--tier", "quick"], capture_output=True, text=True, env=env, cwd=VERIF)
        rules = sorted({l.split(" at ")[0].replace("  rule ", "").strip() for l in r.stdout.splitlines() if l.startswith("  rule ")})
        out["exit"] = r.returncode
        out["rules_fired"] = rules[:8]
        out["result"] = "caught" if r.returncode == 1 else "analysis-broken" if r.returncode == 2 else "missed"
    finally:
        scratch.remove(d)
    return out


def run(prop):
    evdir = os.environ.get("VERIF_EVIDENCE_DIR") or os.path.join(VERIF, "evidence")
    evp = os.path.join(evdir, prop + ".json")
    if os.environ.get("REPO") and os.path.realpath(os.environ["REPO"]) != "/repo":
        return 0      # self-test only makes sense against /repo itself
    tasks = []
    sd = os.path.join(VERIF, "seeded")
    cross = {}
    mp = os.path.join(sd, "matrix-all.json")
    if os.path.exists(mp):
        m = json.load(open(mp))
        for seed, res in m.items():
            if isinstance(res.get(prop), dict) and res[prop].get("rc") == 1:
                cross[seed] = True
    for s in sorted(os.listdir(sd)):
        p = os.path.join(sd, s, "patch.diff")
        if not os.path.exists(p):
            continue
        try:
            own = json.load(open(os.path.join(sd, s, "meta.json"))).get("property")
        except Exception:
            own = s.split("-")[0]
        if own == prop or s in cross:
            tasks.append((s, "seed", p, prop))
    kf = json.load(open(os.path.join(VERIF, "known_findings.json")))["findings"]
    fixed = [f for f in kf if f.get("status") == "fixed" and (f.get("property") == prop or prop in f.get("also_properties", []))]
    if fixed:
        tasks.append(("pre-fix revision 3378b62 (defects %s)" % ",".join(f["id"] for f in fixed), "revision", "3378b62", prop))
    results = []
    with ThreadPoolExecutor(max_workers=8) as ex:
        for r in ex.map(_run, tasks):
            results.append(r)
            print("self-test %-10s %s %s" % (r["result"], r["change"], ",".join(r.get("rules_fired", [])[:4])))
    caught = sum(1 for r in results if r["result"] == "caught")
    ev = json.load(open(evp))
    ev["tier"] = "thorough"
    ev["coverage"]["selftest"] = {"changes_run": len(results), "caught": caught, "results": results,
                                  "note": "each change compiles and passes the 10 tests; a 'missed' entry is a checker weakness, not a repo defect"}
    ev["coverage"]["evaluations"] += len(results)
    with open(evp, "w") as fh:
        json.dump(ev, fh, indent=1, default=str)
    print("self-test: %d/%d seeded or historical breaking changes caught by the %s check" % (caught, len(results), prop))
    return 0
