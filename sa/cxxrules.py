"""Rules over the reproc++ (cxx) configuration: C19, C15.D4, C16.G6."""
import os
import re
from .facts import AnalysisBroken, strip, expr_str, TRANSPARENT, CALL_KINDS, load_program, repo_root
from .absint import walk_nodes
from .rulelib import *
from . import linexpr as L
from . import cxxcfg

LOOK_THROUGH_METHODS = ("count", "data", "size", "get")
C_AGGREGATES = ("reproc_options", "reproc_redirect", "reproc_stop_actions", "reproc_stop_action", "reproc_event_source", "")


def cstrip(n):
    while True:
        k = n["k"]
        if k in TRANSPARENT and n.get("c"):
            n = n["c"][0]
        elif k in ("CXXConstructExpr", "CXXTemporaryObjectExpr") and len(n.get("c", [])) == 1:
            n = n["c"][0]
        else:
            return n


def source_name(n, F=None, depth=0):
    """the name a C++ expression is 'about': last member on its access chain, or the parameter name.  With F given, a local
    variable that has exactly one definition (its initialiser) and is never assigned stands for that initialiser."""
    n = cstrip(n)
    k = n["k"]
    if F is not None and k == "DeclRefExpr" and depth < 4 and n.get("dk") in ("local", None):
        decls = [x for x in F.walk() if x["k"] == "VarDecl" and x.get("did") == n.get("did") and x.get("c")]
        writes = [x for x in F.walk() if x["k"] in ("BinaryOperator", "CompoundAssignOperator") and x.get("op", "").endswith("=")
                  and x["op"] not in ("==", "!=", "<=", ">=") and cstrip(x["c"][0])["k"] == "DeclRefExpr" and cstrip(x["c"][0]).get("did") == n.get("did")]
        if len(decls) == 1 and not writes and n.get("did") is not None:
            r = source_name(decls[0]["c"][0], F, depth + 1)
            if r is not None:
                return r
    if k == "MemberExpr":
        if n["member"] == "impl_" and n.get("c") and cstrip(n["c"][0])["k"] != "CXXThisExpr":
            return source_name(n["c"][0])
        return n["member"]
    if k == "DeclRefExpr":
        return n["name"]
    if k == "CXXMemberCallExpr":
        callee = cstrip(n["c"][0])
        if callee["k"] == "MemberExpr" and callee["member"] in LOOK_THROUGH_METHODS and callee.get("c"):
            return source_name(callee["c"][0])
        return None
    if k == "CallExpr" and n.get("callee", "").endswith("_from") and len(n["c"]) > 1:
        return source_name(n["c"][1])
    if k in ("IntegerLiteral", "CXXBoolLiteralExpr"):
        return str(n.get("val"))
    if k in ("CXXNullPtrLiteralExpr", "GNUNullExpr"):
        return "nullptr"
    if k == "InitListExpr":
        return "{...}"
    return None


# ------------------------------------------------------------------------------ C19

def c19_initialisers(ctx, prog):
    n = 0
    for F in prog.funcs_all:
        if not F.file.endswith("reproc.cpp"):
            continue
        for node in F.walk():
            if node["k"] != "InitListExpr" or "fields" not in node:
                continue
            rec = node.get("rec", "")
            if rec not in C_AGGREGATES:
                continue
            if rec == "" and not any(a["k"] == "InitListExpr" and a.get("rec") in C_AGGREGATES for a in F.ancestors(node)):
                continue
            for fld, sub in zip(node["fields"], node["c"]):
                s0 = cstrip(sub)
                if s0["k"] == "InitListExpr":
                    continue       # nested aggregate: checked on its own
                if s0["k"] == "ImplicitValueInitExpr":
                    continue
                src = source_name(sub)
                ok = src == fld
                if not ok and s0["k"] == "CXXMemberCallExpr":
                    # accessor named like the C field on the member named like the enclosing C field: options.input.data()
                    callee = cstrip(s0["c"][0])
                    parent_field = None
                    par = F.nodes.get(F.parent.get(node["id"]))
                    if par is not None and par["k"] == "InitListExpr" and "fields" in par:
                        idx = [i for i, x in enumerate(par["c"]) if x["id"] == node["id"]]
                        if idx and idx[0] < len(par["fields"]):
                            parent_field = par["fields"][idx[0]]
                    if callee["k"] == "MemberExpr" and callee["member"] == fld and src == parent_field:
                        ok = True
                if src in ("0", "nullptr") and fld == "events":
                    ok = True      # filled in by the callee (reproc_poll)
                n += 1
                ctx.ob("C19.F1", "%s: %s.%s" % (F.name, rec or "<nested struct>", fld), "the value initialising this C field comes from "
                       "the same-named C++ member or parameter (positional initialisers follow the C field order)", ok,
                       {"c_field": fld, "initialised_from": expr_str(sub)[:60], "source_name": src, "line": sub["l"][0]}, nontrivial=True)
    # the same mapping written as field-by-field assignments to a C aggregate variable: result.X = <expr>
    for F in prog.funcs_all:
        if not F.file.endswith("reproc.cpp"):
            continue
        cvars = {x["name"] for x in F.walk() if x["k"] == "VarDecl" and any(a in (x.get("t") or "") for a in C_AGGREGATES if a)}
        # ... and C aggregates a helper receives by reference or pointer (a fix-up pass after the conversion)
        cvars |= {p_["name"] for p_ in F.params if any(a in (p_.get("t") or "") for a in C_AGGREGATES if a)
                  and ("&" in (p_.get("t") or "") or "*" in (p_.get("t") or "")) and "const" not in (p_.get("t") or "").split("reproc_")[0]}
        for node in F.walk():
            if node["k"] == "BinaryOperator" and node["op"] == "=":
                lp = chain(node["c"][0])
                if lp and lp[0] in cvars and lp[1]:
                    r0 = cstrip(node["c"][1])
                    if r0["k"] in ("InitListExpr",):
                        continue
                    src = source_name(node["c"][1])
                    fld = lp[1][-1]
                    ok = src == fld
                    if not ok and r0["k"] == "CXXMemberCallExpr":
                        callee = cstrip(r0["c"][0])
                        if callee["k"] == "MemberExpr" and callee["member"] == fld and len(lp[1]) >= 2 and src == lp[1][-2]:
                            ok = True
                    if fld == "fork" and src in ("fork",):
                        ok = True
                    # ... on every path: the assignment is not nested in a branch (a field that is only filled in for some values of
                    # another member does not "reach the C layer with the same value")
                    guards = [a["k"] for a in F.ancestors(node) if a["k"] in ("IfStmt", "SwitchStmt", "CaseStmt", "DefaultStmt", "ConditionalOperator",
                                                                             "ForStmt", "WhileStmt", "DoStmt", "CXXForRangeStmt")]
                    if guards:
                        ok = False
                    n += 1
                    ctx.ob("C19.F1", "%s: %s.%s" % (F.name, lp[0], ".".join(lp[1])), "the value assigned to this C field comes from the "
                           "same-named C++ member or parameter, unconditionally", ok, {"c_field": ".".join(lp[1]), "assigned_from": expr_str(node["c"][1])[:60],
                                                                     "source_name": src, "line": node["l"][0], "nested_in": guards}, nontrivial=True)
    ctx.floor("C19.F1", 25)


def c19_converters(ctx, prog):
    """F1c: source_name() looks through calls to `*_from` helpers.  That is justified for helpers that build a C aggregate (their
    initialisers are C19.F1 obligations) and for error_code_from (C19.F4e); any other one must be a plain conversion of its
    parameter - one return, no condition, no arithmetic - or a value could be remapped on the way (a sentinel such as
    reproc::deadline turned into 'infinite')"""
    for F in prog.funcs_all:
        if not F.file.endswith("reproc.cpp") or not F.name.endswith("_from") or F.name.endswith("error_code_from"):
            continue
        builds = [n for n in F.walk() if n["k"] == "InitListExpr" and n.get("rec") in C_AGGREGATES and n.get("rec")]
        cvars = [x for x in F.walk() if x["k"] == "VarDecl" and any(a in (x.get("t") or "") for a in C_AGGREGATES if a)]
        if builds or cvars:
            ctx.ob("C19.F1c", F.name, "a helper that builds a C aggregate: its initialisers are checked field by field (C19.F1)", True, None)
            continue
        he = [n for n in F.walk() if n["k"] == "CallExpr" and n.get("callee") == "error_code_from"]
        if he and F.params and all(source_name(n["c"][1]) == F.params[0]["name"] for n in he):
            ctx.ob("C19.F1c", F.name, "a helper that pairs a C result with error_code_from of the same value (checked where it is used: C19.F4)", True, None)
            continue
        rets = [x for x in F.walk() if x["k"] == "ReturnStmt" and x.get("c")]
        branching = [x["k"] for x in F.walk() if x["k"] in ("ConditionalOperator", "IfStmt", "SwitchStmt", "BinaryOperator", "ForStmt", "WhileStmt",
                                                           "BinaryConditionalOperator", "CompoundAssignOperator", "UnaryOperator")]
        ok = len(rets) == 1 and not branching and len(F.params) >= 1 and source_name(rets[0]["c"][0]) == F.params[0]["name"]
        ctx.ob("C19.F1c", F.name, "a scalar conversion helper hands its parameter on unchanged (cast / count() / data() only): no branch, "
               "no arithmetic, so no value - in particular no sentinel such as reproc::deadline or reproc::infinite - is remapped", ok,
               {"returns": [expr_str(r["c"][0])[:70] for r in rets], "operators": sorted(set(branching))})
    ctx.floor("C19.F1c", 3)


def norm(name):
    return name.rstrip("_").lower()


def c19_enums(ctx, prog, cprog):
    pairs = []
    groups = {"reproc::stop": "REPROC_STOP_", "reproc::redirect::type": "REPROC_REDIRECT_", "reproc::stream": "REPROC_STREAM_",
              "reproc::env::type": "REPROC_ENV_", "reproc::event::(anonymous)": "REPROC_EVENT_"}
    seen = set()
    for e in prog.enums:
        q = e["qname"]
        if q not in groups or q in seen:
            continue
        seen.add(q)
        prefix = groups[q]
        cpp = {norm(i["name"]): i for i in e["items"]}
        cs = {k[len(prefix):].lower(): v for k, v in cprog.enumerators.items() if k.startswith(prefix)}
        ctx.ob("C19.F2b", q, "the C++ enumerators and the C enumerators %s* correspond one to one" % prefix, set(cpp) == set(cs),
               {"cpp_only": sorted(set(cpp) - set(cs)), "c_only": sorted(set(cs) - set(cpp))})
        for name in sorted(set(cpp) & set(cs)):
            qn = q.replace("(anonymous)", "").rstrip(":") + "::" + cpp[name]["name"]
            pairs.append((qn, prefix + name.upper(), cpp[name]["val"], cs[name]))
    if len(seen) != len(groups):
        raise AnalysisBroken("C19.F2: C++ enums not found: %s" % sorted(set(groups) - seen))
    for qn, cn, cv, v in pairs:
        ctx.ob("C19.F2", "%s == %s" % (qn, cn), "the C++ enumerator has the value of its C counterpart (it is passed on with a cast)",
               cv == v, {"cpp": cv, "c": v})
    # the same as compile-fail witnesses (static_assert), so a divergence cannot even build this TU
    lines = ["#include <reproc++/reproc.hpp>", "#include <reproc/reproc.h>"]
    for qn, cn, cv, v in pairs:
        lines.append("static_assert(static_cast<int>(%s) == static_cast<int>(%s), \"%s\");" % (qn, cn, qn))
    ok, err = cxxcfg.syntax_check(prog.root, "\n".join(lines) + "\n", "witness_enums.cpp")
    failed = re.findall(r"static_assert failed.*?\"([^\"]+)\"", err)
    ctx.ob("C19.F2w", "static_assert witness TU (%d assertions)" % len(pairs), "a translation unit asserting every enumerator pair compiles",
           ok, {"failed": failed[:6], "errors": err[-400:] if not ok and not failed else None}, nontrivial=True)
    # constants initialised from the C constants
    want = {"kill": "REPROC_SIGKILL", "terminate": "REPROC_SIGTERM", "infinite": "REPROC_INFINITE", "deadline": "REPROC_DEADLINE"}
    found = {}
    for v in prog.vars:
        if v["scope"] == "file" and v["name"] in want and v.get("def") and "init" in v and v["file"].endswith("reproc.cpp"):
            refs = [x["name"] for x in walk_nodes(v["init"]) if x["k"] == "DeclRefExpr" and x["name"].startswith("REPROC_")]
            found[v["qname"]] = refs
            ctx.ob("C19.F2c", v["qname"], "the C++ constant is initialised from its C counterpart", refs == [want[v["name"]]], {"initialiser": refs})
    ctx.floor("C19.F2c", 4)


def c19_clone(ctx, prog):
    F = prog.fn("reproc::options::clone")
    rec = [r for r in prog.records_all if r["qname"] == "reproc::options"]
    if not rec:
        raise AnalysisBroken("struct reproc::options not found")
    fields = [f["name"] for f in rec[0]["fields"]]
    assigned = {}
    # the copy being built is the local the function returns; the source is its parameter (whatever they are called)
    src_name = F.params[0]["name"] if F.params else "other"
    dst_name = "clone"
    for n in F.walk():
        if n["k"] == "ReturnStmt" and n.get("c"):
            r = cstrip(n["c"][0])
            while r["k"] in ("CXXConstructExpr",) and r.get("c"):
                r = cstrip(r["c"][0])
            if r["k"] == "DeclRefExpr":
                dst_name = r["name"]
    for n in F.walk():
        if n["k"] in ("BinaryOperator", "CXXOperatorCallExpr") and (n.get("op") == "=" or n.get("callee") == "operator="):
            kids = n["c"] if n["k"] == "BinaryOperator" else n["c"][1:]
            lhs, rhs = kids[0], kids[1]
            fp = chain(lhs)
            if fp and fp[0] == dst_name and fp[1]:
                rp = chain_any(rhs)
                assigned.setdefault(fp[1][0], []).append((fp[1], rp))
    for f in fields:
        subs = assigned.get(f, [])
        ok = bool(subs) and all(rp is not None and rp[0] == src_name and rp[1][:len(lp)] == lp for lp, rp in subs)
        # a struct member may be copied member-wise: then every sub member must be covered
        if subs and any(len(lp) > 1 for lp, rp in subs):
            sub_rec = [r for r in prog.records_all if r.get("parent") == "options" and any(ff["name"] == subs[0][0][1] for ff in r["fields"])]
            if sub_rec:
                need = {ff["name"] for ff in sub_rec[0]["fields"]}
                ok = ok and need <= {lp[1] for lp, rp in subs if len(lp) > 1}
        ctx.ob("C19.F3", "options::clone: " + f, "copying options preserves this member (it is assigned from the same member of the source)",
               ok, {"assignments": [(".".join(lp), ".".join(rp[1]) if rp else None) for lp, rp in subs]})
    ctx.floor("C19.F3", 8)


def chain(n):
    n = cstrip(n)
    path = []
    while True:
        n = cstrip(n)
        if n["k"] == "MemberExpr" and n.get("c"):
            path.append(n["member"])
            n = n["c"][0]
        elif n["k"] == "DeclRefExpr":
            path.reverse()
            return n["name"], path
        else:
            return None


def chain_any(n):
    """member chain of the first declref-rooted chain inside n (looks through .data() etc.)"""
    n = cstrip(n)
    if n["k"] == "CXXMemberCallExpr":
        callee = cstrip(n["c"][0])
        if callee["k"] == "MemberExpr" and callee.get("c"):
            return chain_any(callee["c"][0])
    c = chain(n)
    if c:
        return c
    for x in n.get("c", []):
        r = chain_any(x)
        if r:
            return r
    return None


WRAPPERS = {
    "start": ("reproc_start", ["arguments", "reproc_options"]), "fork": ("reproc_start", ["nullptr", "reproc_options"]),
    "read": ("reproc_read", ["stream", "buffer", "size"]), "write": ("reproc_write", ["buffer", "size"]),
    "close": ("reproc_close", ["stream"]), "wait": ("reproc_wait", ["timeout"]), "terminate": ("reproc_terminate", []),
    "kill": ("reproc_kill", []), "stop": ("reproc_stop", ["stop"]), "pid": ("reproc_pid", []),
}


def c19_wrappers(ctx, prog, cprog):
    for m, (cfn, argnames) in WRAPPERS.items():
        q = "reproc::process::" + m
        if q not in prog.funcs:
            ctx.ob("C19.F4", q, "the wrapper method exists", False, None)
            continue
        F = prog.funcs[q]
        ccalls = [n for n in F.walk() if n["k"] == "CallExpr" and n.get("callee", "").startswith("reproc_") and not n["callee"].endswith("_from")]
        ok = len(ccalls) == 1 and ccalls[0]["callee"] == cfn
        det = {"calls": [c.get("callee") for c in ccalls]}
        if ok:
            a = ccalls[0]["c"][1:]
            h = source_name(a[0])
            names = [source_name(x) for x in a[1:]]
            resolved = [source_name(x, F) for x in a[1:]]
            det["args"] = names
            ok = h == "impl_" or source_name(a[0], F) == "impl_" or chain_any(a[0]) and "impl_" in expr_str(a[0])
            # a local with a single definition stands for its initialiser (`int ms = timeout.count(); reproc_wait(p, ms)`)
            ok = ok and len(names) == len(argnames) and all(w in (x, y) for w, x, y in zip(argnames, names, resolved))
            # the result variable feeds error_code_from and (where a value is returned) the value itself
            rv = None
            par = F.nodes.get(F.parent.get(ccalls[0]["id"]))
            while par is not None and par["k"] in TRANSPARENT:
                par = F.nodes.get(F.parent.get(par["id"]))
            if par is not None and par["k"] == "VarDecl":
                rv = par["name"]
            ecalls = [n for n in F.walk() if n["k"] == "CallExpr" and n.get("callee") == "error_code_from"]
            flows = rv is not None and len(ecalls) == 1 and source_name(ecalls[0]["c"][1]) == rv
            if not flows and len(ecalls) == 1 and cstrip(ecalls[0]["c"][1])["id"] == ccalls[0]["id"]:
                flows = True          # error_code_from(reproc_x(...)) - the result goes straight in
            if not flows and rv is not None and not ecalls:
                # the result is handed to one local helper that pairs it with error_code_from of the same value
                byname = {}
                for Fx in prog.funcs_all:
                    if Fx.file.endswith("reproc.cpp"):
                        byname.setdefault(Fx.name, Fx)
                helpers = [n for n in F.walk() if n["k"] == "CallExpr" and n.get("callee") in byname and len(n["c"]) == 2
                           and source_name(n["c"][1]) == rv]
                if len(helpers) == 1:
                    H = byname[helpers[0]["callee"]]
                    he = [n for n in H.walk() if n["k"] == "CallExpr" and n.get("callee") == "error_code_from"]
                    vals = [n for n in H.walk() if n["k"] == "DeclRefExpr" and n["name"] == H.params[0]["name"]] if H.params else []
                    branching = [n for n in H.walk() if n["k"] in ("IfStmt", "ConditionalOperator", "SwitchStmt", "BinaryOperator", "UnaryOperator")]
                    flows = len(he) == 1 and source_name(he[0]["c"][1]) == H.params[0]["name"] and len(vals) == 2 and not branching
            ok = ok and flows
            det["result_var"] = rv
            if m == "fork":
                # true in the child: r == 0
                cmp_ = [n for n in F.walk() if n["k"] == "BinaryOperator" and n["op"] == "==" and source_name(n["c"][0]) == rv and cstrip(n["c"][1]).get("val") == 0]
                ok = ok and len(cmp_) == 1
                fk = [n for n in F.walk() if n["k"] == "CallExpr" and n.get("callee") == "reproc_options_from"]
                ok = ok and len(fk) == 1 and cstrip(fk[0]["c"][2]).get("val") == 1
            if m == "start":
                fk = [n for n in F.walk() if n["k"] == "CallExpr" and n.get("callee") == "reproc_options_from"]
                ok = ok and len(fk) == 1 and cstrip(fk[0]["c"][2]).get("val") == 0
        ctx.ob("C19.F4", q, "the method calls exactly %s on the owned handle with its own parameters in order, and returns that call's result "
               "and error_code_from of it" % cfn, ok, det, nontrivial=True)
    # error translation: error_code_from is walked through its CFG for representative results r - every branch condition is a
    # comparison of r with constants, so the walk is deterministic; what matters is the last error_code the path constructs
    F = prog.fn("reproc::error_code_from")
    pname = F.params[0]["name"] if F.params else None

    def evalc(n, r):
        n = cstrip(n)
        k = n["k"]
        if k in ("IntegerLiteral", "CXXBoolLiteralExpr") or (isinstance(n.get("val"), int) and k != "DeclRefExpr"):
            return n.get("val")
        if k == "DeclRefExpr":
            if n["name"] == pname:
                return r
            if isinstance(n.get("val"), int):
                return n["val"]
            if n["name"] in cprog.consts:
                return cprog.consts[n["name"]]
            return None
        if k == "UnaryOperator" and n["op"] in ("-", "!"):
            v = evalc(n["c"][0], r)
            return None if v is None else (-v if n["op"] == "-" else int(not v))
        if k == "BinaryOperator" and n["op"] in ("<", "<=", ">", ">=", "==", "!=", "&&", "||"):
            x, y = evalc(n["c"][0], r), evalc(n["c"][1], r)
            if x is None or y is None:
                return None
            return int({"<": x < y, "<=": x <= y, ">": x > y, ">=": x >= y, "==": x == y, "!=": x != y, "&&": bool(x and y), "||": bool(x or y)}[n["op"]])
        return None

    def walk(r):
        b = F.cfg.entry
        last = None
        for _ in range(300):
            B = F.cfg.blocks[b]
            for e in B.elems:
                n = F.nodes.get(e)
                if n is None or n["k"] not in ("CXXConstructExpr", "CXXTemporaryObjectExpr", "InitListExpr", "CXXFunctionalCastExpr"):
                    continue
                t = n.get("ct") or n.get("t") or ""
                if "error_code" not in t:
                    continue
                args = [x for x in n.get("c", [])]
                if len(args) == 1 and "error_code" in (cstrip(args[0]).get("ct") or cstrip(args[0]).get("t") or ""):
                    continue          # copy / move of an existing error_code
                if len(args) == 0:
                    last = ("success",)
                elif len(args) == 2:
                    cat = [y.get("callee") for y in walk_nodes(args[1]) if y["k"] == "CallExpr"]
                    last = ("error", evalc(args[0], r), cat[0] if cat else None)
                else:
                    last = ("other", len(args))
            if b == F.cfg.exit or not B.succs:
                return last
            edges = F.cfg.edges(B)
            if B.tcond is not None and len(edges) == 2:
                v = evalc(F.nodes[B.tcond], r)
                if v is None:
                    return "undecidable"
                want = ("T",) if v else ("F",)
                nxt = [s_ for s_, lab in edges if lab == want]
                if not nxt:
                    return "undecidable"
                b = nxt[0]
            else:
                nxt = [s_ for s_, lab in edges if s_ is not None]
                if len(nxt) != 1:
                    return "undecidable"
                b = nxt[0]
        return "undecidable"
    samples = [0, 1, 7, 4096] + [cprog.const(x) for x in ("REPROC_EINVAL", "REPROC_EPIPE", "REPROC_ETIMEDOUT", "REPROC_ENOMEM", "REPROC_EWOULDBLOCK")] + [-1, -5, -13]
    undec = []
    for r in samples:
        got = walk(r)
        if got == "undecidable":
            undec.append(r)
            continue
        if r >= 0:
            ctx.ob("C19.F4e", "error_code_from(%d)" % r, "non-negative results become success (an empty error code)", got == ("success",), {"result": str(got)})
        else:
            ok = isinstance(got, tuple) and got[0] == "error" and got[1] == -r and got[2] in ("system_category", "generic_category")
            ctx.ob("C19.F4e", "error_code_from(%d)" % r, "a negative result becomes an error code with the value -r (the same errno number, in the "
                   "system or the generic category: an equivalent error)", ok, {"result": str(got), "expected_value": -r})
    # a table of (C error, std::errc) pairs, whatever drives it: each pair must name the same errno number
    for il in F.walk():
        if il["k"] == "InitListExpr" and len(il.get("c", [])) == 2:
            a0, b0 = cstrip(il["c"][0]), cstrip(il["c"][1])
            cn = [y for y in walk_nodes(a0) if y["k"] == "DeclRefExpr" and y["name"].startswith("REPROC_E")]
            en = [y for y in walk_nodes(b0) if y["k"] == "DeclRefExpr" and y.get("dk") == "enum"]
            if cn and en:
                ctx.ob("C19.F4e", "error_code_from: %s" % cn[0]["name"], "a specially translated C error maps to the std::errc value with the same "
                       "number (an equivalent error)", en[0]["val"] == -cprog.const(cn[0]["name"]),
                       {"errc": en[0]["name"], "errc_value": en[0]["val"], "c_value": cprog.const(cn[0]["name"])})
    if undec:
        ctx.floor_failures.append("C19.F4e: error_code_from could not be evaluated for r in %s (a branch condition is not a comparison of r with constants); "
                                  "no verdict on the error translation" % undec)
    ctx.floor("C19.F4", 10)
    # F5 poll copy in / out
    P = prog.fn("reproc::poll")
    inits = [n for n in P.walk() if n["k"] == "InitListExpr" and n.get("rec") == "reproc_event_source"]
    loops = [n for n in P.walk() if n["k"] in ("ForStmt", "WhileStmt")]
    news = [n for n in P.walk() if n["k"] == "CXXNewExpr"]
    dels = [n for n in P.walk() if n["k"] == "CXXDeleteExpr"]
    call = [n for n in P.walk() if n["k"] == "CallExpr" and n.get("callee") == "reproc_poll"]
    copy_out = [n for n in P.walk() if n["k"] == "BinaryOperator" and n["op"] == "=" and source_name(n["c"][0]) == "events" and source_name(n["c"][1]) == "events"]
    ok = len(inits) == 1 and len(loops) == 2 and len(news) == 1 and news[0].get("array") and len(dels) == 1 and dels[0].get("array") \
        and len(call) == 1 and [source_name(a) for a in call[0]["c"][1:]] == ["reproc_sources", "num_sources", "timeout"] and len(copy_out) == 1
    guard = False

    def ev_cond(c, r):
        """truth of a comparison of the poll result (any variable) with a constant, for the result value r"""
        c = cstrip(c)
        if c["k"] == "UnaryOperator" and c.get("op") == "!":
            v = ev_cond(c["c"][0], r)
            return None if v is None else not v
        if c["k"] == "BinaryOperator" and c["op"] in ("<", "<=", ">", ">=", "==", "!="):
            a, b = cstrip(c["c"][0]), cstrip(c["c"][1])
            va = a.get("val") if "val" in a else (r if a["k"] == "DeclRefExpr" else None)
            vb = b.get("val") if "val" in b else (r if b["k"] == "DeclRefExpr" else None)
            if va is None or vb is None:
                return None
            return {"<": va < vb, "<=": va <= vb, ">": va > vb, ">=": va >= vb, "==": va == vb, "!=": va != vb}[c["op"]]
        return None
    if copy_out:
        for a in P.ancestors(copy_out[0]):
            if a["k"] == "IfStmt":
                in_then = copy_out[0]["id"] in {x["id"] for x in walk_nodes(P.nodes[a["then"]])} if a.get("then") is not None else True
                vals = [ev_cond(P.nodes[a["cond"]], r) for r in (-5, -1, 0, 1, 7)]
                want = [False, False, True, True, True] if in_then else [True, True, False, False, False]
                guard = vals == want
    ctx.ob("C19.F5", "reproc::poll", "every source's handle and interests are copied in per index, reproc_poll gets the array, count and "
           "timeout, events are copied back per index when the call succeeded, and the temporary array is freed", ok and guard,
           {"new[]": len(news), "delete[]": len(dels), "copy_out_guarded_by_r>=0": guard})


def c19_containers(ctx, prog):
    """F6: arguments::from / env::from: array sizes vs entries written, string sizes vs characters written"""
    for q in ("reproc::arguments::from", "reproc::env::from"):
        Fs = [F for F in prog.funcs_all if F.qname == q]
        if not Fs:
            raise AnalysisBroken("%s is not instantiated by the witness TU" % q)
        for F in Fs[:1]:
            news = [n for n in F.walk() if n["k"] == "CXXNewExpr" and n.get("array")]
            if len(news) != 2:
                ctx.ob("C19.F6", q, "one pointer array and one string per entry are allocated", False, {"new[]": len(news)})
                continue
            arr = [n for n in news if "*" in n.get("allocT", "")][0]
            stg = [n for n in news if n is not arr][0]
            arr_size = L.lin(arr["c"][0]) if arr.get("c") else None
            cont = F.params[0]["name"]
            want_arr = {"%s.size()" % cont: 1, 1: 1}
            ctx.ob("C19.F6", q + ": pointer array", "the pointer array has one slot per entry plus the NULL terminator", arr_size == want_arr,
                   {"allocated": L.show(arr_size), "needed": L.show(want_arr)}, nontrivial=True)
            # string: allocated size vs number of *string++ / *string stores, each inside a loop bounded by X.size()
            stg_size = L.lin(stg["c"][0]) if stg.get("c") else None
            written = {}
            svar = None
            par = F.nodes.get(F.parent.get(stg["id"]))
            while par is not None and par["k"] != "VarDecl":
                par = F.nodes.get(F.parent.get(par["id"]))
            svar = par["name"] if par else None
            for n in F.walk():
                if n["k"] == "BinaryOperator" and n["op"] == "=":
                    l = cstrip(n["c"][0])
                    if l["k"] == "UnaryOperator" and l["op"] == "*" and svar in expr_str(l):
                        loops = [a for a in F.ancestors(n) if a["k"] == "ForStmt"]
                        if loops:
                            cond = cstrip(F.nodes[loops[0]["cond"]])
                            bound = L.lin(cond["c"][1]) if cond["k"] == "BinaryOperator" and cond["op"] == "<" else None
                            if bound is None:
                                written = None
                                break
                            written = L.add(written, bound)
                        else:
                            written = L.add(written, {1: 1})
            # block copies into the string: counted as written; and they may read no more than the element's size() characters
            # (an element type such as string_view guarantees nothing about the byte after its last character)
            overread = []
            for n in F.walk():
                if n["k"] == "CallExpr" and n.get("callee") in ("memcpy", "memmove", "strncpy") and written is not None:
                    ln = L.lin(n["c"][3])
                    if ln is None:
                        written = None
                        break
                    written = L.add(written, ln)
                    src = expr_str(cstrip(n["c"][2]))
                    if src.endswith(".data()"):
                        owner = src[:-len(".data()")]
                        if not L.geq({owner + ".size()": 1}, ln):
                            overread.append("%s: %s bytes read from %s" % (expr_str(n)[:50], L.show(ln), src))
            ok = stg_size is not None and written is not None and L.geq(stg_size, written) and bool(written)
            ctx.ob("C19.F6", q + ": source bytes", "no more than size() characters are read from a container element (the terminator is "
                   "written by the conversion itself)", not overread, {"over-reads": overread[:3]})
            ctx.ob("C19.F6", q + ": strings", "each string is allocated for all characters written into it ('=' and terminator included)",
                   ok, {"allocated": L.show(stg_size), "written": L.show(written)}, nontrivial=True)
            # entries stored at a monotonically increasing index, terminator last
            idx_stores = [n for n in F.walk() if n["k"] == "BinaryOperator" and n["op"] == "=" and cstrip(n["c"][0])["k"] == "ArraySubscriptExpr"]
            inc = [n for n in idx_stores if cstrip(cstrip(n["c"][0])["c"][1])["k"] == "UnaryOperator" and cstrip(cstrip(n["c"][0])["c"][1])["op"] == "++"]
            term = [n for n in idx_stores if cstrip(n["c"][1])["k"] == "CXXNullPtrLiteralExpr" or cstrip(n["c"][1]).get("null")]
            rng = [a for a in F.ancestors(inc[0]) if a["k"] in ("CXXForRangeStmt",)] if inc else []
            skipping = []
            if rng:
                body_nodes = list(walk_nodes(rng[0]))
                skipping = [x["k"] for x in body_nodes if x["k"] in ("ContinueStmt", "BreakStmt", "GotoStmt", "ReturnStmt")]
                # the store itself must not sit under a condition inside the loop
                skipping += ["conditional store" for a in F.ancestors(inc[0]) if a["k"] in ("IfStmt", "ConditionalOperator", "SwitchStmt")
                             and a["id"] in {x["id"] for x in body_nodes}]
            ctx.ob("C19.F6", q + ": order", "every entry of the container is stored, at current++ in iteration order (no entry is skipped), "
                   "and the array is terminated with nullptr", len(inc) == 1 and len(term) == 1 and bool(rng) and not skipping,
                   {"skips": skipping})
    # detail::array destructor frees what from() allocated; moves null the source
    D = [F for F in prog.funcs_all if F.qname == "reproc::detail::array::~array"]
    if D:
        dels = [n for n in D[0].walk() if n["k"] == "CXXDeleteExpr"]
        ok = len(dels) == 2 and all(d.get("array") for d in dels) and len([d for d in dels if [a for a in D[0].ancestors(d) if a["k"] == "ForStmt"]]) == 1
        guard = bool([n for n in D[0].walk() if n["k"] == "IfStmt" and "owned_" in expr_str(D[0].nodes[n["cond"]])])
        ctx.ob("C19.F6d", "detail::array::~array", "owned arrays are released with one delete[] per entry and one for the array; borrowed ones are left alone",
               ok and guard, {"delete[]": len(dels)})


def c19_layout(ctx, prog):
    """F7: the public types exist once: the headers an application compiles and the ones the library was compiled with describe the
    same members at the same offsets whatever macros the application defines.  Lexical scan of the installed headers: no
    preprocessor conditional inside the braces of a struct / class / union / enum definition (conditionals around whole
    declarations - the handle typedef per platform, extern "C", export macros - are outside any such braces)."""
    import glob
    import re
    root = prog.root
    files = sorted(glob.glob(os.path.join(root, "reproc", "include", "reproc", "*.h")) + glob.glob(os.path.join(root, "reproc++", "include", "reproc++", "**", "*.hpp"), recursive=True))
    hits = []
    records = 0
    for path in files:
        text = open(path, errors="replace").read()
        text = re.sub(r"/\*.*?\*/", lambda m: re.sub(r"[^\n]", " ", m.group(0)), text, flags=re.S)
        text = re.sub(r"//[^\n]*", "", text)
        text = re.sub(r'"(\\.|[^"\\\n])*"', '""', text)
        stack = []          # one entry per open brace: True if it opens a record / enum definition
        pending = ""        # text since the last ; { }
        for ln, line in enumerate(text.split("\n"), 1):
            if re.match(r"\s*#", line):
                if re.match(r"\s*#\s*(if|ifdef|ifndef|elif|else)\b", line) and any(stack):
                    hits.append("%s:%d %s" % (os.path.relpath(path, root), ln, line.strip()[:50]))
                continue
            for ch in line:
                if ch == "{":
                    is_rec = bool(re.search(r"\b(struct|class|union|enum)\b", pending)) and not re.search(r"\)\s*(const|noexcept|override)?\s*$", pending.strip())
                    records += is_rec
                    stack.append(is_rec)
                    pending = ""
                elif ch == "}":
                    if stack:
                        stack.pop()
                    pending = ""
                elif ch == ";":
                    pending = ""
                else:
                    pending += ch
            pending += " "
    if len(files) < 6 or records < 10:
        raise AnalysisBroken("C19.F7: only %d public headers / %d type definitions found" % (len(files), records))
    ctx.ob("C19.F7", "public headers: type definitions", "no struct, class, union or enum of the installed headers has a preprocessor "
           "conditional inside its definition: an application and the library always agree on every member and offset", not hits,
           {"headers": len(files), "type_definitions": records, "conditionals_inside_definitions": hits[:4]})


def check_c19(ctx):
    prog = ctx.prog("cxx")
    cprog = ctx.prog("posix-mt")
    c19_layout(ctx, prog)
    c19_initialisers(ctx, prog)
    c19_converters(ctx, prog)
    c19_enums(ctx, prog, cprog)
    c19_clone(ctx, prog)
    c19_wrappers(ctx, prog, cprog)
    c19_containers(ctx, prog)


# ------------------------------------------------------------------------------ C15.D4

def c15_deleter(ctx):
    prog = ctx.prog("cxx")
    ctors = [F for F in prog.funcs_all if F.qname == "reproc::process::process" and not F.params]
    if not ctors:
        raise AnalysisBroken("reproc::process default constructor not found")
    F = ctors[0]
    inits = F.d.get("ctor_inits", [])
    ok = False
    det = None
    for ci in inits:
        if ci.get("member") == "impl_":
            refs = [x["name"] for x in walk_nodes(ci["init"]) if x["k"] == "DeclRefExpr" and x.get("dk") == "func"]
            det = refs
            ok = refs == ["reproc_new", "reproc_destroy"] or (set(refs) == {"reproc_new", "reproc_destroy"} and len(refs) == 2)
    ctx.ob("C15.D4", "reproc::process::process()", "the C++ process owns a handle from reproc_new with reproc_destroy as its deleter, so "
           "destroying the object destroys the handle (applying the stop policy)", ok, {"impl_ initialised with": det})
    dt = [F for F in prog.funcs_all if F.qname == "reproc::process::~process"]
    ctx.ob("C15.D4d", "reproc::process::~process", "the destructor is defaulted (the deleter runs exactly once; a moved-from object holds "
           "null, which destroy ignores)", bool(dt) and dt[0].d.get("defaulted"), None)


# ------------------------------------------------------------------------------ C16.G6

def functor_calls(F, name):
    out = []
    for n in F.walk():
        if n["k"] == "CXXOperatorCallExpr" and n.get("callee") == "operator()" and len(n["c"]) >= 2:
            obj = cstrip(n["c"][1])
            if obj["k"] == "DeclRefExpr" and obj["name"] == name:
                out.append(n)
        elif n["k"] == "CallExpr" and not n.get("callee"):
            obj = cstrip(n["c"][0])
            if obj["k"] == "DeclRefExpr" and obj["name"] == name:
                out.append(n)
    return sorted(out, key=lambda n: n["id"])


def c16_noexcept(ctx, prog):
    """G6x: a sink that can fail by exception lets the exception out: no function of reproc++ that is declared non-throwing grows a
    string or container, writes to a stream or takes a lock (operations that report failure by throwing) - inside `noexcept` the
    exception cannot reach the caller of drain / run, it ends the process with everything received so far lost.  (The exception
    specification of each function and the throwing potential of each callee are resolved by clang in the witness TU.)"""
    import re
    THROWING = re.compile(r"^std::(__cxx11::)?(basic_string|vector|basic_ostream|basic_ostringstream|deque|list|map|unordered_map|lock_guard|unique_lock|mutex)\b")
    hits = []
    nfun = 0
    seen = set()
    for F in prog.funcs_all:
        if "/reproc++/" not in F.file or not F.d.get("nothrow") or (F.qname, F.d.get("line")) in seen:
            continue
        seen.add((F.qname, F.d.get("line")))
        nfun += 1
        for x in F.nodes.values():
            nm = x.get("qcallee") or x.get("ctor") or ""
            if x.get("maythrow") and THROWING.match(nm):
                hits.append("%s (line %d): %s" % (F.qname, x["l"][0], nm[:60]))
    if nfun < 10:
        raise AnalysisBroken("C16.G6x: only %d non-throwing functions of reproc++ seen (exception specifications not extracted?)" % nfun)
    ctx.ob("C16.G6x", "reproc++: non-throwing functions", "no function declared noexcept performs an operation of the standard library that "
           "reports failure by exception (a failing sink stops drain with its error, it does not terminate the process)", not hits,
           {"noexcept_functions": nfun, "throwing_operations_inside": sorted(set(hits))[:4]})


def c16_mirror(ctx):
    prog = ctx.prog("cxx")
    c16_noexcept(ctx, prog)
    drains = [F for F in prog.funcs_all if F.qname == "reproc::drain"]
    if len(drains) < 2:
        raise AnalysisBroken("reproc::drain is not instantiated by the witness TU")
    for F in drains:
        tag = "reproc::drain<%s>" % ",".join(p["t"].split("::")[-1].replace(" &", "").replace("&&", "") for p in F.params[1:])
        loop = [n for n in F.walk() if n["k"] == "ForStmt"]
        if len(loop) != 1:
            ctx.ob("C16.G6", tag, "one poll/read/dispatch loop", False, None)
            continue
        loop_ids = {x["id"] for x in walk_nodes(loop[0])}
        outc, errc = functor_calls(F, "out"), functor_calls(F, "err")

        def args_of(call):
            a = call["c"][2:] if call["k"] == "CXXOperatorCallExpr" else call["c"][1:]
            return [expr_str(cstrip(x)) for x in a]
        pre_out = [c for c in outc if c["id"] not in loop_ids]
        pre_err = [c for c in errc if c["id"] not in loop_ids]
        ok1 = len(pre_out) == 1 and len(pre_err) == 1 and pre_out[0]["id"] < pre_err[0]["id"] and \
            args_of(pre_out[0])[0] == "in" and args_of(pre_err[0])[0] == "in" and args_of(pre_out[0])[2] == "0" and args_of(pre_err[0])[2] == "0"
        ctx.ob("C16.G6", tag + ": opening calls", "before the loop the out sink and then the err sink are called once with stream::in and "
               "size 0", ok1, {"out": [args_of(c) for c in pre_out], "err": [args_of(c) for c in pre_err]})
        def local_init(name):
            """initialiser text of a single-definition local (so that `const int interests = out | err; poll(interests)` and
            `bool from_out = events & out; stream s = from_out ? out : err; if (from_out) ...` read like the direct forms)"""
            decls = [x for x in F.walk() if x["k"] == "VarDecl" and x["name"] == name and x.get("c")]
            writes = [x for x in F.walk() if x["k"] in ("BinaryOperator", "CompoundAssignOperator") and x.get("op", "").endswith("=")
                      and x["op"] not in ("==", "!=", "<=", ">=") and expr_str(cstrip(x["c"][0])) == name]
            return expr_str(cstrip(decls[0]["c"][0])) if len(decls) == 1 and not writes else None
        in_out = [c for c in outc if c["id"] in loop_ids]
        in_err = [c for c in errc if c["id"] in loop_ids]
        ok2 = len(in_out) == 1 and len(in_err) == 1 and args_of(in_out[0]) == ["stream", "buffer", "bytes_read"] and args_of(in_err[0]) == ["stream", "buffer", "bytes_read"]
        sel = False
        if ok2:
            for a in F.ancestors(in_out[0]):
                if a["k"] == "IfStmt":
                    c = cstrip(F.nodes[a["cond"]])
                    txt = expr_str(c)
                    if c["k"] == "DeclRefExpr" and local_init(c["name"]):
                        # `if (from_out)` where `stream` itself is chosen by the same flag: from_out ? stream::out : stream::err
                        flag = c["name"]
                        sinit = local_init("stream") or ""
                        if sinit.replace(" ", "").startswith(flag + "?") and sinit.index("out") < sinit.index("err"):
                            txt = "stream == out (via %s: %s)" % (flag, local_init(flag))
                    sel = "stream" in txt and "out" in txt and a.get("else") is not None and in_err[0]["id"] in {x["id"] for x in walk_nodes(F.nodes[a["else"]])} \
                        and in_out[0]["id"] in {x["id"] for x in walk_nodes(F.nodes[a["then"]])}
                    break
        ctx.ob("C16.G6", tag + ": dispatch", "inside the loop a chunk goes to `out` when the stream read is stdout and to `err` otherwise, "
               "with the stream tag, the buffer read into and the byte count", ok2 and sel, None)
        polls = [n for n in F.walk() if n["k"] == "CXXMemberCallExpr" and cstrip(n["c"][0]).get("member") == "poll"]
        reads = [n for n in F.walk() if n["k"] == "CXXMemberCallExpr" and cstrip(n["c"][0]).get("member") == "read"]
        ok3 = len(polls) == 1 and len(reads) == 1 and polls[0]["id"] in loop_ids and reads[0]["id"] in loop_ids and polls[0]["id"] < reads[0]["id"]
        ev_arg = expr_str(cstrip(polls[0]["c"][1])) if polls else ""
        if polls and cstrip(polls[0]["c"][1])["k"] == "DeclRefExpr" and local_init(ev_arg):
            ev_arg = local_init(ev_arg)
        ok3 = ok3 and "out" in ev_arg and "err" in ev_arg and [expr_str(cstrip(x)) for x in reads[0]["c"][1:]][:2] == ["stream", "buffer"]
        refs = {x["name"] for x in F.walk() if x["k"] == "DeclRefExpr"}
        ok4 = "broken_pipe" in refs and "deadline" in refs and "timed_out" in refs
        ctx.ob("C16.G6", tag + ": loop skeleton", "poll for out|err, a broken pipe from poll ends the drain with success, the deadline event "
               "with timed_out, then one read of the selected stream", ok3 and ok4, {"poll_events": ev_arg})
        # C16.G7 (C++ mirror): the buffer given to process.read and to the sinks is an automatic object of this instantiation
        for r in reads:
            b = cstrip(r["c"][2]) if len(r["c"]) > 2 else None
            while b is not None and b["k"] in ("UnaryOperator", "ArraySubscriptExpr", "MemberExpr") and b.get("c"):
                b = cstrip(b["c"][0])
            vds = [x for x in F.walk() if x["k"] == "VarDecl" and b is not None and b.get("did") is not None and x.get("did") == b.get("did")]
            if b is None or b["k"] != "DeclRefExpr" or (not vds and b.get("dk") not in ("global", "staticlocal")):
                continue  # a parameter or member: storage decided by the caller, no verdict from this rule
            shared = b.get("dk") in ("global", "staticlocal") or any(v.get("static") or v.get("tls") or v.get("extern") for v in vds)
            ctx.ob("C16.G7", tag + ": storage of the chunk buffer", "the buffer process.read fills and the sinks are handed is an automatic "
                   "object of this call: a sink may drain another process and drains run concurrently on different objects",
                   not shared, {"buffer": b.get("name"), "storage": "static" if shared else "automatic"})
    runs = [F for F in prog.funcs_all if F.qname == "reproc::run" and len(F.params) == 4]
    for F in runs[:1]:
        seq = []
        for n in sorted(F.walk(), key=lambda n: n["id"]):
            if n["k"] == "CXXMemberCallExpr" and cstrip(n["c"][0]).get("member") in ("start", "stop"):
                seq.append(cstrip(n["c"][0])["member"])
            elif n["k"] == "CallExpr" and n.get("callee") == "drain":
                seq.append("drain")
        ctx.ob("C16.G6r", "reproc::run", "run starts, drains and stops in that order", seq == ["start", "drain", "stop"], {"sequence": seq})
    if not runs:
        raise AnalysisBroken("reproc::run is not instantiated")
