"""Rules over the reproc++ (cxx) configuration. Filled in by C19 / C15 / C16."""


def c16_mirror(ctx):
    ctx.note("C16.G6 (C++ mirror of drain/run) not implemented yet")


def c15_deleter(ctx):
    ctx.note("C15.D4 (C++ deleter) not implemented yet")
