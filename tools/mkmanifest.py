#!/usr/bin/env python3
"""Regenerates MANIFEST.json from the rule modules that exist (sa/rules/cXX.py) and the table below."""
import json, os, sys, importlib
HERE = os.path.dirname(os.path.dirname(os.path.abspath(__file__)))
sys.path.insert(0, HERE)
props = [json.loads(l) for l in open(os.path.join(HERE, "properties.jsonl"))]

TECH = {}
NA = {}
checks = []
na = []
for p in props:
    pid = p["id"]
    modpath = os.path.join(HERE, "sa", "rules", pid.lower() + ".py")
    if os.path.exists(modpath):
        mod = importlib.import_module("sa.rules." + pid.lower())
        if getattr(mod, "NOT_APPLICABLE", None):
            na.append({"property_id": pid, "reason": mod.NOT_APPLICABLE})
            continue
        checks.append({
            "property_id": pid,
            "quick_cmd": "./check %s --tier quick" % pid,
            "thorough_cmd": "./check %s --tier thorough" % pid,
            "evidence_file": "/verif/evidence/%s.json" % pid,
            "replay_cmd_template": "./check %s --explain {path}" % pid,
            "engine": "sa",
            "level_claimed": {
                "category": "other",
                "text": mod.EXPLANATION,
                "design_ref": "DESIGN.md section 4, " + pid,
            },
            "level_note": "; ".join(mod.ASSUMPTIONS),
            "technique": getattr(mod, "TECHNIQUE", "static analysis: abstract interpretation and path/call-graph rules over clang AST+CFG facts"),
        })
    else:
        na.append({"property_id": pid, "reason": "check not built yet (implementation in progress, see DESIGN.md section 7); will be claimed once its rules run"})

m = {
    "version": 1,
    "setup_cmd": "./build.sh",
    "hooks": {
        "guard": "REPROC_VERIF",
        "enable": "none: every check reads the unmodified sources; no hook is compiled into /repo",
        "baseline_off_cmd": "cmake --build /repo/_build && ctest --test-dir /repo/_build -j8 --timeout 900",
        "source_commits": [],
        "add_only": True,
    },
    "engines": [{
        "name": "sa",
        "path": "/verif/sa (python rules) + /verif/tools/extract.cc (clang LibTooling fact extractor)",
        "serves_properties": [c["property_id"] for c in checks],
        "kind_free_text": "static analysis: clang AST/CFG fact extraction; abstract interpretation with disjunctive finite-domain states, libc models and inlined callees; call-graph who-may-call rules; table agreement; linear size/writer comparison; compile-fail witnesses",
    }],
    "checks": checks,
    "notes": "Static analysis only. Exit 2 = analysis broken (anchor vanished / unsupported construct), never a verdict. See DESIGN.md.",
    "not_applicable": na,
}
json.dump(m, open(os.path.join(HERE, "MANIFEST.json"), "w"), indent=1)
print("checks:", [c["property_id"] for c in checks], "not_applicable:", [n["property_id"] for n in na])
