#!/bin/bash
# usage: verify_seed.sh <seed dir containing patch.diff run.sh>  -> prints one line RESULT <dir> compiles= tests= unchanged= changed=
S=$(realpath "$1")
D=$(mktemp -d)
trap 'rm -rf "$D"' EXIT
mkdir -p "$D/repo"
(cd /repo && git ls-files -z | xargs -0 cp --parents -t "$D/repo")
cd "$D/repo"
applies=1; git init -q . ; git apply --whitespace=nowarn "$S/patch.diff" 2>"$D/apply.err" || applies=0
compiles=0; tests=0; changed=na; unchanged=na
if [ $applies = 1 ]; then
  EXTRA=""
  grep -q "reproc++" "$S/patch.diff" "$S/run.sh" 2>/dev/null && EXTRA="-DREPROC++=ON"
  if cmake -G Ninja -B _build -DCMAKE_BUILD_TYPE=RelWithDebInfo -DREPROC_TEST=ON -DCMAKE_C_FLAGS=-Wno-error $EXTRA >"$D/cmake.log" 2>&1 && cmake --build _build >"$D/build.log" 2>&1; then
    compiles=1
    if ctest --test-dir _build -j4 --timeout 900 >"$D/ctest.log" 2>&1; then tests=1; fi
    (cd "$S" && timeout 120 bash ./run.sh "$D/repo" >"$D/run_changed.log" 2>&1); changed=$?
  fi
fi
# unchanged: a pristine copy built the same way (so reproc++ is available when needed)
mkdir -p "$D/clean"
(cd /repo && git ls-files -z | xargs -0 cp --parents -t "$D/clean")
cd "$D/clean"
if cmake -G Ninja -B _build -DCMAKE_BUILD_TYPE=RelWithDebInfo -DREPROC_TEST=ON -DCMAKE_C_FLAGS=-Wno-error $EXTRA >"$D/cmake2.log" 2>&1 && cmake --build _build >"$D/build2.log" 2>&1; then
  (cd "$S" && timeout 120 bash ./run.sh "$D/clean" >"$D/run_unchanged.log" 2>&1); unchanged=$?
fi
echo "RESULT $S applies=$applies compiles=$compiles tests=$tests unchanged_rc=$unchanged changed_rc=$changed"
if [ "$unchanged" != 0 ]; then echo "--- unchanged log"; tail -5 "$D/run_unchanged.log"; fi
