// extract.cc - LibTooling fact extractor for the reproc static checks.
//
// Contains NO rule. It serialises the resolved program (type-checked AST with
// resolved callees / declarations / evaluated constants / macro provenance /
// semantic-form initialisers) and clang's CFG for every function defined in
// the repository, as one JSON document per translation unit. All rules live in
// python (sa/).
//
// usage: extract --root <repo root> -o <out.json> <file> -- <compile flags>

#include "clang/AST/ASTConsumer.h"
#include "clang/AST/ASTContext.h"
#include "clang/AST/Attr.h"
#include "clang/AST/DeclCXX.h"
#include "clang/AST/DeclTemplate.h"
#include "clang/AST/Expr.h"
#include "clang/AST/ExprCXX.h"
#include "clang/AST/RecursiveASTVisitor.h"
#include "clang/AST/Stmt.h"
#include "clang/AST/StmtCXX.h"
#include "clang/Analysis/CFG.h"
#include "clang/Frontend/CompilerInstance.h"
#include "clang/Frontend/FrontendAction.h"
#include "clang/Lex/Lexer.h"
#include "clang/Tooling/CommonOptionsParser.h"
#include "clang/Tooling/Tooling.h"
#include "llvm/Support/CommandLine.h"
#include "llvm/Support/JSON.h"
#include "llvm/Support/raw_ostream.h"

#include <map>
#include <set>
#include <string>

using namespace clang;
using namespace clang::tooling;

// can a call to FD let an exception out?  C functions (extern "C") and functions with a non-throwing exception specification cannot
static bool mayThrow(const clang::FunctionDecl *FD) {
  if (!FD || !FD->getASTContext().getLangOpts().CPlusPlus || FD->isExternC() || FD->getBuiltinID())
    return false;
  const auto *FPT = FD->getType()->getAs<clang::FunctionProtoType>();
  if (!FPT)
    return false;
  if (clang::isUnresolvedExceptionSpec(FPT->getExceptionSpecType()))
    return false;      // not instantiated: unknown, say nothing
  return !FPT->isNothrow();
}

namespace json = llvm::json;

static llvm::cl::OptionCategory Cat("extract options");
static llvm::cl::opt<std::string> Root("root", llvm::cl::desc("repository root"),
                                       llvm::cl::Required, llvm::cl::cat(Cat));
static llvm::cl::opt<std::string> Out("o", llvm::cl::desc("output file"),
                                      llvm::cl::Required, llvm::cl::cat(Cat));

namespace {

struct Extractor {
  ASTContext &Ctx;
  SourceManager &SM;
  const LangOptions &LO;
  std::map<const Decl *, int> DeclIds;
  json::Array Funcs, Records, Enums, Vars, Protos;
  std::set<const Decl *> SeenRecords, SeenEnums, SeenVars, SeenFuncs;

  explicit Extractor(ASTContext &C)
      : Ctx(C), SM(C.getSourceManager()), LO(C.getLangOpts()) {}

  int declId(const Decl *D)
  {
    D = D->getCanonicalDecl();
    auto It = DeclIds.find(D);
    if (It != DeclIds.end())
      return It->second;
    int Id = (int) DeclIds.size() + 1;
    DeclIds[D] = Id;
    return Id;
  }

  std::string fileOf(SourceLocation L)
  {
    L = SM.getExpansionLoc(L);
    if (L.isInvalid())
      return "";
    auto F = SM.getFilename(L);
    llvm::SmallString<256> P(F);
    SM.getFileManager().makeAbsolutePath(P);
    llvm::sys::path::remove_dots(P, true);
    return std::string(P.str());
  }

  bool inRepo(SourceLocation L)
  {
    std::string F = fileOf(L);
    return !F.empty() && llvm::StringRef(F).startswith(Root);
  }

  unsigned lineOf(SourceLocation L)
  {
    return SM.getExpansionLineNumber(L);
  }
  unsigned colOf(SourceLocation L)
  {
    return SM.getExpansionColumnNumber(L);
  }

  json::Array macroStack(SourceLocation L)
  {
    json::Array A;
    int Guard = 0;
    while (L.isMacroID() && Guard++ < 32) {
      llvm::StringRef N = Lexer::getImmediateMacroName(L, SM, LO);
      if (!N.empty())
        A.push_back(N.str());
      L = SM.getImmediateMacroCallerLoc(L);
    }
    return A;
  }

  std::string typeStr(QualType T)
  {
    return T.getAsString(Ctx.getPrintingPolicy());
  }

  // ---------------------------------------------------------------- nodes

  struct FnState {
    int NextId = 0;
    std::map<const Stmt *, int> StmtIds;
    std::map<const VarDecl *, int> VarNodeIds;
  };

  void addDeclRefInfo(json::Object &O, const ValueDecl *D)
  {
    O["name"] = D->getNameAsString();
    O["did"] = declId(D);
    if (auto *VD = dyn_cast<VarDecl>(D)) {
      if (isa<ParmVarDecl>(VD))
        O["dk"] = "param";
      else if (VD->hasLocalStorage())
        O["dk"] = "local";
      else if (VD->isStaticLocal())
        O["dk"] = "staticlocal";
      else
        O["dk"] = "global"; // includes block scope `extern` declarations
    } else if (auto *EC = dyn_cast<EnumConstantDecl>(D)) {
      O["dk"] = "enum";
      O["val"] = (int64_t) EC->getInitVal().getExtValue();
    } else if (isa<FunctionDecl>(D)) {
      O["dk"] = "func";
      O["qname"] = D->getQualifiedNameAsString();
    } else if (isa<FieldDecl>(D)) {
      O["dk"] = "field";
    } else {
      O["dk"] = "other";
    }
  }

  json::Value emitVarDecl(const VarDecl *VD, FnState &S)
  {
    json::Object O;
    int Id = S.NextId++;
    S.VarNodeIds[VD] = Id;
    O["id"] = Id;
    O["k"] = "VarDecl";
    O["name"] = VD->getNameAsString();
    O["did"] = declId(VD);
    O["t"] = typeStr(VD->getType());
    O["ct"] = typeStr(VD->getType().getCanonicalType());
    O["l"] = json::Array{(int64_t) lineOf(VD->getLocation()),
                         (int64_t) colOf(VD->getLocation())};
    if (VD->isStaticLocal())
      O["static"] = true;
    if (VD->getTLSKind() != VarDecl::TLS_None)
      O["tls"] = true;
    if (VD->hasExternalStorage())
      O["extern"] = true;
    json::Array C;
    if (const Expr *I = VD->getInit())
      C.push_back(emitStmt(I, S));
    O["c"] = std::move(C);
    return std::move(O);
  }

  json::Value emitStmt(const Stmt *St, FnState &S)
  {
    json::Object O;
    if (!St) {
      O["k"] = "Null";
      O["id"] = S.NextId++;
      return std::move(O);
    }

    // Initialiser lists: always work on the semantic form.
    if (auto *ILE = dyn_cast<InitListExpr>(St)) {
      if (!ILE->isSemanticForm() && ILE->getSemanticForm())
        St = ILE->getSemanticForm();
    }

    int Id = S.NextId++;
    S.StmtIds[St] = Id;
    if (auto *ILE = dyn_cast<InitListExpr>(St)) {
      // map the syntactic form too so CFG elements resolve
      if (ILE->isSemanticForm() && ILE->getSyntacticForm())
        S.StmtIds[ILE->getSyntacticForm()] = Id;
    }
    O["id"] = Id;
    O["k"] = St->getStmtClassName();
    SourceLocation B = St->getBeginLoc();
    O["l"] = json::Array{(int64_t) lineOf(B), (int64_t) colOf(B)};
    {
      json::Array M = macroStack(B);
      if (!M.empty())
        O["m"] = std::move(M);
    }

    json::Array C;

    if (auto *E = dyn_cast<Expr>(St)) {
      O["t"] = typeStr(E->getType());
      {
        std::string CT = typeStr(E->getType().getCanonicalType());
        if (CT != typeStr(E->getType()))
          O["ct"] = CT;
      }
      if (E->isLValue())
        O["lv"] = true;
      if (!E->isValueDependent() && !E->isTypeDependent() &&
          (E->getType()->isIntegralOrEnumerationType() ||
           E->getType()->isPointerType())) {
        Expr::EvalResult R;
        if (E->getType()->isIntegralOrEnumerationType() &&
            E->EvaluateAsInt(R, Ctx, Expr::SE_NoSideEffects)) {
          O["val"] = (int64_t) R.Val.getInt().getExtValue();
        } else if (E->getType()->isPointerType() &&
                   E->isNullPointerConstant(
                       Ctx, Expr::NPC_ValueDependentIsNotNull) !=
                       Expr::NPCK_NotNull) {
          O["null"] = true;
        }
      }
    }

    if (auto *DS = dyn_cast<DeclStmt>(St)) {
      for (const Decl *D : DS->decls()) {
        if (auto *VD = dyn_cast<VarDecl>(D))
          C.push_back(emitVarDecl(VD, S));
      }
      O["c"] = std::move(C);
      return std::move(O);
    }

    if (auto *DRE = dyn_cast<DeclRefExpr>(St)) {
      addDeclRefInfo(O, DRE->getDecl());
    } else if (auto *ME = dyn_cast<MemberExpr>(St)) {
      O["member"] = ME->getMemberDecl()->getNameAsString();
      O["arrow"] = ME->isArrow();
      if (auto *FD = dyn_cast<FieldDecl>(ME->getMemberDecl())) {
        O["rec"] = FD->getParent()->getNameAsString();
        O["fidx"] = (int64_t) FD->getFieldIndex();
      } else if (auto *MD = dyn_cast<CXXMethodDecl>(ME->getMemberDecl())) {
        O["qname"] = MD->getQualifiedNameAsString();
      }
    } else if (auto *CE = dyn_cast<CallExpr>(St)) {
      if (const FunctionDecl *FD = CE->getDirectCallee()) {
        O["callee"] = FD->getNameAsString();
        O["qcallee"] = FD->getQualifiedNameAsString();
        O["cdid"] = declId(FD);
        if (FD->isNoReturn())
          O["noreturn"] = true;
        if (mayThrow(FD))
          O["maythrow"] = true;
      }
      O["nargs"] = (int64_t) CE->getNumArgs();
    } else if (auto *BO = dyn_cast<BinaryOperator>(St)) {
      O["op"] = BO->getOpcodeStr().str();
    } else if (auto *UO = dyn_cast<UnaryOperator>(St)) {
      O["op"] = UnaryOperator::getOpcodeStr(UO->getOpcode()).str();
      O["postfix"] = UO->isPostfix();
    } else if (auto *CaE = dyn_cast<CastExpr>(St)) {
      O["ck"] = CaE->getCastKindName();
    } else if (auto *IL = dyn_cast<IntegerLiteral>(St)) {
      (void) IL;
    } else if (auto *SL = dyn_cast<StringLiteral>(St)) {
      if (SL->isAscii() || SL->isUTF8())
        O["str"] = SL->getString().str();
    } else if (auto *UE = dyn_cast<UnaryExprOrTypeTraitExpr>(St)) {
      O["trait"] = (int64_t) UE->getKind();
      if (UE->isArgumentType())
        O["argt"] = typeStr(UE->getArgumentType());
    } else if (auto *ILE = dyn_cast<InitListExpr>(St)) {
      QualType T = ILE->getType();
      if (const RecordType *RT = T->getAs<RecordType>()) {
        json::Array F;
        const RecordDecl *RD = RT->getDecl();
        O["rec"] = RD->getNameAsString();
        if (RD->isUnion()) {
          if (const FieldDecl *FD = ILE->getInitializedFieldInUnion())
            F.push_back(FD->getNameAsString());
        } else {
          // C++ aggregates may have bases first; reproc has none.
          unsigned I = 0;
          for (const FieldDecl *FD : RD->fields()) {
            if (FD->isUnnamedBitfield())
              continue;
            if (I++ >= ILE->getNumInits())
              break;
            F.push_back(FD->getNameAsString());
          }
        }
        O["fields"] = std::move(F);
      }
      for (unsigned I = 0; I < ILE->getNumInits(); I++)
        C.push_back(emitStmt(ILE->getInit(I), S));
      O["c"] = std::move(C);
      return std::move(O);
    } else if (auto *LS = dyn_cast<LabelStmt>(St)) {
      O["label"] = LS->getDecl()->getNameAsString();
    } else if (auto *GS = dyn_cast<GotoStmt>(St)) {
      O["label"] = GS->getLabel()->getNameAsString();
    } else if (auto *CS = dyn_cast<CaseStmt>(St)) {
      Expr::EvalResult R;
      if (CS->getLHS() && CS->getLHS()->EvaluateAsInt(R, Ctx))
        O["caseval"] = (int64_t) R.Val.getInt().getExtValue();
    } else if (auto *CCE = dyn_cast<CXXConstructExpr>(St)) {
      O["ctor"] = CCE->getConstructor()->getQualifiedNameAsString();
      O["nargs"] = (int64_t) CCE->getNumArgs();
      if (mayThrow(CCE->getConstructor()))
        O["maythrow"] = true;
    } else if (auto *NE = dyn_cast<CXXNewExpr>(St)) {
      O["array"] = NE->isArray();
      O["allocT"] = typeStr(NE->getAllocatedType());
    } else if (auto *DE = dyn_cast<CXXDeleteExpr>(St)) {
      O["array"] = DE->isArrayForm();
    } else if (auto *DME = dyn_cast<CXXDependentScopeMemberExpr>(St)) {
      O["member"] = DME->getMember().getAsString();
    }

    // Named roles for control statements (ids of the children).
    if (auto *IS = dyn_cast<IfStmt>(St)) {
      json::Value Cond = emitStmt(IS->getCond(), S);
      O["cond"] = *Cond.getAsObject()->getInteger("id");
      C.push_back(std::move(Cond));
      json::Value Then = emitStmt(IS->getThen(), S);
      O["then"] = *Then.getAsObject()->getInteger("id");
      C.push_back(std::move(Then));
      if (IS->getElse()) {
        json::Value Else = emitStmt(IS->getElse(), S);
        O["else"] = *Else.getAsObject()->getInteger("id");
        C.push_back(std::move(Else));
      }
      O["c"] = std::move(C);
      return std::move(O);
    }
    if (auto *FS = dyn_cast<ForStmt>(St)) {
      auto add = [&](const char *Role, const Stmt *Sub) {
        if (!Sub)
          return;
        json::Value V = emitStmt(Sub, S);
        O[Role] = *V.getAsObject()->getInteger("id");
        C.push_back(std::move(V));
      };
      add("init", FS->getInit());
      add("cond", FS->getCond());
      add("inc", FS->getInc());
      add("body", FS->getBody());
      O["c"] = std::move(C);
      return std::move(O);
    }
    if (auto *WS = dyn_cast<WhileStmt>(St)) {
      json::Value Cond = emitStmt(WS->getCond(), S);
      O["cond"] = *Cond.getAsObject()->getInteger("id");
      C.push_back(std::move(Cond));
      json::Value Body = emitStmt(WS->getBody(), S);
      O["body"] = *Body.getAsObject()->getInteger("id");
      C.push_back(std::move(Body));
      O["c"] = std::move(C);
      return std::move(O);
    }
    if (auto *DoS = dyn_cast<DoStmt>(St)) {
      json::Value Body = emitStmt(DoS->getBody(), S);
      O["body"] = *Body.getAsObject()->getInteger("id");
      C.push_back(std::move(Body));
      json::Value Cond = emitStmt(DoS->getCond(), S);
      O["cond"] = *Cond.getAsObject()->getInteger("id");
      C.push_back(std::move(Cond));
      O["c"] = std::move(C);
      return std::move(O);
    }
    if (auto *SS = dyn_cast<SwitchStmt>(St)) {
      json::Value Cond = emitStmt(SS->getCond(), S);
      O["cond"] = *Cond.getAsObject()->getInteger("id");
      C.push_back(std::move(Cond));
      json::Value Body = emitStmt(SS->getBody(), S);
      O["body"] = *Body.getAsObject()->getInteger("id");
      C.push_back(std::move(Body));
      O["c"] = std::move(C);
      return std::move(O);
    }
    if (auto *CS = dyn_cast<CaseStmt>(St)) {
      // only the sub statement; the label value is in "caseval"
      C.push_back(emitStmt(CS->getSubStmt(), S));
      O["c"] = std::move(C);
      return std::move(O);
    }
    if (auto *LE = dyn_cast<LambdaExpr>(St)) {
      // body is emitted as a separate function (operator()), keep captures
      for (const Expr *Cap : LE->capture_inits())
        if (Cap)
          C.push_back(emitStmt(Cap, S));
      O["c"] = std::move(C);
      return std::move(O);
    }

    for (const Stmt *Ch : St->children()) {
      if (!Ch)
        continue;
      C.push_back(emitStmt(Ch, S));
    }
    O["c"] = std::move(C);
    return std::move(O);
  }

  // ---------------------------------------------------------------- CFG

  json::Value emitCFG(const FunctionDecl *FD, FnState &S)
  {
    CFG::BuildOptions BO;
    BO.setAllAlwaysAdd();
    BO.PruneTriviallyFalseEdges = false;
    BO.AddImplicitDtors = false;
    BO.AddTemporaryDtors = false;
    BO.AddEHEdges = false;
    std::unique_ptr<CFG> G =
        CFG::buildCFG(FD, FD->getBody(), &Ctx, BO);
    json::Object O;
    if (!G) {
      O["error"] = "no cfg";
      return std::move(O);
    }
    O["entry"] = (int64_t) G->getEntry().getBlockID();
    O["exit"] = (int64_t) G->getExit().getBlockID();
    json::Array Blocks;
    for (const CFGBlock *B : *G) {
      json::Object JB;
      JB["id"] = (int64_t) B->getBlockID();
      json::Array Elems;
      for (const CFGElement &E : *B) {
        if (auto SE = E.getAs<CFGStmt>()) {
          const Stmt *St = SE->getStmt();
          auto It = S.StmtIds.find(St);
          if (It != S.StmtIds.end()) {
            Elems.push_back(It->second);
          } else if (auto *DS = dyn_cast<DeclStmt>(St)) {
            // synthetic single-decl DeclStmt
            if (DS->isSingleDecl())
              if (auto *VD = dyn_cast<VarDecl>(DS->getSingleDecl())) {
                auto VI = S.VarNodeIds.find(VD);
                if (VI != S.VarNodeIds.end())
                  Elems.push_back(VI->second);
              }
          } else {
            Elems.push_back(-1);
          }
        }
      }
      JB["elems"] = std::move(Elems);
      if (const Stmt *T = B->getTerminatorStmt()) {
        auto It = S.StmtIds.find(T);
        JB["term"] = It != S.StmtIds.end() ? It->second : -1;
        JB["termk"] = T->getStmtClassName();
      }
      if (const Stmt *TC = B->getTerminatorCondition(false)) {
        auto It = S.StmtIds.find(TC);
        JB["tcond"] = It != S.StmtIds.end() ? It->second : -1;
      }
      if (const Stmt *L = B->getLabel()) {
        auto It = S.StmtIds.find(L);
        JB["label"] = It != S.StmtIds.end() ? It->second : -1;
        JB["labelk"] = L->getStmtClassName();
      }
      if (B->hasNoReturnElement())
        JB["noret"] = true;
      json::Array Succs;
      for (auto I = B->succ_begin(); I != B->succ_end(); ++I) {
        const CFGBlock::AdjacentBlock &AB = *I;
        json::Object JS;
        if (const CFGBlock *R = AB.getReachableBlock()) {
          JS["b"] = (int64_t) R->getBlockID();
        } else if (const CFGBlock *U = AB.getPossiblyUnreachableBlock()) {
          JS["b"] = (int64_t) U->getBlockID();
          JS["u"] = true;
        } else {
          JS["b"] = nullptr;
        }
        Succs.push_back(std::move(JS));
      }
      JB["succs"] = std::move(Succs);
      Blocks.push_back(std::move(JB));
    }
    O["blocks"] = std::move(Blocks);
    return std::move(O);
  }

  // ---------------------------------------------------------------- decls

  void emitFunction(const FunctionDecl *FD)
  {
    if (!FD->doesThisDeclarationHaveABody())
      return;
    if (FD->isDependentContext())
      return;
    if (!SeenFuncs.insert(FD).second)
      return;
    FnState S;
    json::Object O;
    O["name"] = FD->getNameAsString();
    O["qname"] = FD->getQualifiedNameAsString();
    O["did"] = declId(FD);
    O["file"] = fileOf(FD->getLocation());
    O["line"] = (int64_t) lineOf(FD->getBeginLoc());
    O["endline"] = (int64_t) lineOf(FD->getEndLoc());
    O["static"] = FD->getStorageClass() == SC_Static;
    O["ret"] = typeStr(FD->getReturnType());
    O["retct"] = typeStr(FD->getReturnType().getCanonicalType());
    if (!mayThrow(FD) && !FD->isExternC() && FD->getASTContext().getLangOpts().CPlusPlus)
      O["nothrow"] = true;
    if (FD->isTemplateInstantiation())
      O["instantiation"] = true;
    if (auto *MD = dyn_cast<CXXMethodDecl>(FD)) {
      O["method_of"] = MD->getParent()->getQualifiedNameAsString();
      if (MD->isDefaulted())
        O["defaulted"] = true;
    }
    json::Array Ps;
    for (const ParmVarDecl *P : FD->parameters()) {
      json::Object JP;
      JP["name"] = P->getNameAsString();
      JP["t"] = typeStr(P->getType());
      JP["ct"] = typeStr(P->getType().getCanonicalType());
      JP["did"] = declId(P);
      Ps.push_back(std::move(JP));
    }
    O["params"] = std::move(Ps);
    if (auto *CD = dyn_cast<CXXConstructorDecl>(FD)) {
      json::Array Inits;
      for (const CXXCtorInitializer *I : CD->inits()) {
        json::Object JI;
        if (I->isMemberInitializer())
          JI["member"] = I->getMember()->getNameAsString();
        JI["init"] = emitStmt(I->getInit(), S);
        Inits.push_back(std::move(JI));
      }
      O["ctor_inits"] = std::move(Inits);
    }
    O["body"] = emitStmt(FD->getBody(), S);
    O["cfg"] = emitCFG(FD, S);
    O["nnodes"] = (int64_t) S.NextId;
    Funcs.push_back(std::move(O));
  }

  void emitProto(const FunctionDecl *FD)
  {
    json::Object O;
    O["name"] = FD->getNameAsString();
    O["qname"] = FD->getQualifiedNameAsString();
    O["did"] = declId(FD);
    O["file"] = fileOf(FD->getLocation());
    O["line"] = (int64_t) lineOf(FD->getLocation());
    O["def"] = FD->doesThisDeclarationHaveABody();
    O["ret"] = typeStr(FD->getReturnType());
    if (auto *VA = FD->getAttr<VisibilityAttr>())
      O["visibility"] = (int64_t) VA->getVisibility();
    json::Array Ps;
    for (const ParmVarDecl *P : FD->parameters()) {
      json::Object JP;
      JP["name"] = P->getNameAsString();
      JP["t"] = typeStr(P->getType());
      Ps.push_back(std::move(JP));
    }
    O["params"] = std::move(Ps);
    Protos.push_back(std::move(O));
  }

  void emitRecord(const RecordDecl *RD)
  {
    if (!RD->isCompleteDefinition())
      return;
    if (!SeenRecords.insert(RD).second)
      return;
    json::Object O;
    O["name"] = RD->getNameAsString();
    O["qname"] = RD->getQualifiedNameAsString();
    O["file"] = fileOf(RD->getLocation());
    O["line"] = (int64_t) lineOf(RD->getLocation());
    O["union"] = RD->isUnion();
    O["did"] = declId(RD);
    if (auto *P = dyn_cast_or_null<RecordDecl>(RD->getParent()))
      O["parent"] = P->getNameAsString();
    json::Array F;
    for (const FieldDecl *FD : RD->fields()) {
      json::Object JF;
      JF["name"] = FD->getNameAsString();
      JF["t"] = typeStr(FD->getType());
      JF["ct"] = typeStr(FD->getType().getCanonicalType());
      if (const RecordType *RT = FD->getType()->getAs<RecordType>())
        JF["recdid"] = declId(RT->getDecl());
      if (FD->hasInClassInitializer())
        JF["hasinit"] = true;
      F.push_back(std::move(JF));
    }
    O["fields"] = std::move(F);
    Records.push_back(std::move(O));
  }

  void emitEnum(const EnumDecl *ED)
  {
    if (!ED->isCompleteDefinition())
      return;
    if (!SeenEnums.insert(ED).second)
      return;
    json::Object O;
    O["name"] = ED->getNameAsString();
    O["qname"] = ED->getQualifiedNameAsString();
    if (const TypedefNameDecl *TD = ED->getTypedefNameForAnonDecl())
      O["typedef"] = TD->getNameAsString();
    O["file"] = fileOf(ED->getLocation());
    O["line"] = (int64_t) lineOf(ED->getLocation());
    O["scoped"] = ED->isScoped();
    json::Array I;
    for (const EnumConstantDecl *EC : ED->enumerators()) {
      json::Object JE;
      JE["name"] = EC->getNameAsString();
      JE["val"] = (int64_t) EC->getInitVal().getExtValue();
      I.push_back(std::move(JE));
    }
    O["items"] = std::move(I);
    Enums.push_back(std::move(O));
  }

  void emitVar(const VarDecl *VD, const FunctionDecl *InFunc)
  {
    if (!SeenVars.insert(VD).second)
      return;
    json::Object O;
    O["name"] = VD->getNameAsString();
    O["qname"] = VD->getQualifiedNameAsString();
    O["did"] = declId(VD);
    O["t"] = typeStr(VD->getType());
    O["ct"] = typeStr(VD->getType().getCanonicalType());
    O["file"] = fileOf(VD->getLocation());
    O["line"] = (int64_t) lineOf(VD->getLocation());
    O["const"] = VD->getType().isConstQualified() ||
                 (VD->getType()->isArrayType() &&
                  Ctx.getBaseElementType(VD->getType()).isConstQualified());
    O["tls"] = VD->getTLSKind() != VarDecl::TLS_None;
    O["extern"] = VD->hasExternalStorage();
    O["static"] = VD->getStorageClass() == SC_Static;
    O["def"] = VD->isThisDeclarationADefinition() != VarDecl::DeclarationOnly;
    if (InFunc) {
      O["scope"] = "local";
      O["func"] = InFunc->getNameAsString();
    } else {
      O["scope"] = "file";
    }
    if (const Expr *I = VD->getInit()) {
      O["hasinit"] = true;
      if (!I->isValueDependent()) {
        Expr::EvalResult R;
        if (I->getType()->isIntegralOrEnumerationType() &&
            I->EvaluateAsInt(R, Ctx, Expr::SE_NoSideEffects))
          O["initval"] = (int64_t) R.Val.getInt().getExtValue();
        // keep the initialiser tree for C++ constants built from C ones
        FnState S;
        O["init"] = emitStmt(I, S);
      }
    }
    Vars.push_back(std::move(O));
  }
};

class Visitor : public RecursiveASTVisitor<Visitor> {
public:
  Extractor &X;
  std::vector<const FunctionDecl *> FuncStack;
  explicit Visitor(Extractor &E) : X(E) {}

  bool shouldVisitTemplateInstantiations() const { return true; }
  bool shouldVisitImplicitCode() const { return false; }

  bool TraverseFunctionDecl(FunctionDecl *FD)
  {
    FuncStack.push_back(FD);
    bool R = RecursiveASTVisitor::TraverseFunctionDecl(FD);
    FuncStack.pop_back();
    return R;
  }
  bool TraverseCXXMethodDecl(CXXMethodDecl *FD)
  {
    FuncStack.push_back(FD);
    bool R = RecursiveASTVisitor::TraverseCXXMethodDecl(FD);
    FuncStack.pop_back();
    return R;
  }
  bool TraverseCXXConstructorDecl(CXXConstructorDecl *FD)
  {
    FuncStack.push_back(FD);
    bool R = RecursiveASTVisitor::TraverseCXXConstructorDecl(FD);
    FuncStack.pop_back();
    return R;
  }
  bool TraverseCXXDestructorDecl(CXXDestructorDecl *FD)
  {
    FuncStack.push_back(FD);
    bool R = RecursiveASTVisitor::TraverseCXXDestructorDecl(FD);
    FuncStack.pop_back();
    return R;
  }

  bool VisitFunctionDecl(FunctionDecl *FD)
  {
    if (!X.inRepo(FD->getLocation()))
      return true;
    X.emitProto(FD);
    X.emitFunction(FD);
    return true;
  }
  bool VisitRecordDecl(RecordDecl *RD)
  {
    if (X.inRepo(RD->getLocation()))
      X.emitRecord(RD);
    return true;
  }
  bool VisitEnumDecl(EnumDecl *ED)
  {
    if (X.inRepo(ED->getLocation()))
      X.emitEnum(ED);
    return true;
  }
  bool VisitVarDecl(VarDecl *VD)
  {
    if (isa<ParmVarDecl>(VD))
      return true;
    if (!X.inRepo(VD->getLocation()))
      return true;
    if (VD->isLocalVarDecl() && !VD->isStaticLocal() &&
        !VD->hasExternalStorage())
      return true; // plain locals live in the function bodies
    const FunctionDecl *In = nullptr;
    if (VD->isLocalVarDecl() || VD->getDeclContext()->isFunctionOrMethod())
      In = FuncStack.empty() ? nullptr : FuncStack.back();
    X.emitVar(VD, In);
    return true;
  }
};

class Consumer : public ASTConsumer {
public:
  void HandleTranslationUnit(ASTContext &Ctx) override
  {
    Extractor X(Ctx);
    Visitor V(X);
    V.TraverseDecl(Ctx.getTranslationUnitDecl());
    json::Object Doc;
    auto &SM = Ctx.getSourceManager();
    Doc["tu"] = X.fileOf(SM.getLocForStartOfFile(SM.getMainFileID()));
    Doc["cxx"] = (bool) Ctx.getLangOpts().CPlusPlus;
    Doc["errors"] =
        (int64_t) Ctx.getDiagnostics().getClient()->getNumErrors();
    Doc["funcs"] = std::move(X.Funcs);
    Doc["protos"] = std::move(X.Protos);
    Doc["records"] = std::move(X.Records);
    Doc["enums"] = std::move(X.Enums);
    Doc["vars"] = std::move(X.Vars);
    std::error_code EC;
    llvm::raw_fd_ostream OS(Out, EC);
    if (EC) {
      llvm::errs() << "cannot write " << Out << ": " << EC.message() << "\n";
      exit(3);
    }
    OS << json::Value(std::move(Doc)) << "\n";
  }
};

class Action : public ASTFrontendAction {
public:
  std::unique_ptr<ASTConsumer> CreateASTConsumer(CompilerInstance &,
                                                 llvm::StringRef) override
  {
    return std::make_unique<Consumer>();
  }
};

} // namespace

int main(int argc, const char **argv)
{
  auto Opts = CommonOptionsParser::create(argc, argv, Cat);
  if (!Opts) {
    llvm::errs() << llvm::toString(Opts.takeError()) << "\n";
    return 2;
  }
  ClangTool Tool(Opts->getCompilations(), Opts->getSourcePathList());
  return Tool.run(newFrontendActionFactory<Action>().get());
}
