#!/bin/sh
# usage: tools/trypatch.sh <patch.diff> <PROP>...   -- applies the patch to a scratch copy of /repo (HEAD + working tree) and runs the checks
set -e
P=$(realpath "$1"); shift
D=$(mktemp -d)
trap 'rm -rf "$D"' EXIT
mkdir -p "$D/repo"
(cd /repo && git ls-files -z | xargs -0 cp --parents -t "$D/repo")
(cd "$D/repo" && git init -q . && git apply --whitespace=nowarn "$P")
rc=0
for prop in "$@"; do
  REPO="$D/repo" VERIF_WORK="$D/work" VERIF_EVIDENCE_DIR="$D/ev" "$(dirname "$0")/../check" "$prop" || rc=$?
done
exit $rc
