#!/bin/sh
# usage: tools/trypatch.sh <patch.diff> <PROP>...   -- applies the patch to a scratch copy of /repo HEAD and runs the checks against it
P=$(realpath "$1"); shift
D=$(mktemp -d)
trap 'rm -rf "$D"' EXIT
mkdir -p "$D/repo"
git -C /repo archive HEAD | tar -x -C "$D/repo" || exit 3
(cd "$D/repo" && git apply --whitespace=nowarn "$P" 2>"$D/apply.err") || { echo "PATCH DOES NOT APPLY"; cat "$D/apply.err"; exit 3; }
rc=0
for prop in "$@"; do
  REPO="$D/repo" VERIF_WORK="$D/work" VERIF_EVIDENCE_DIR="$D/ev" "$(dirname "$0")/../check" "$prop" || rc=$?
done
exit $rc
