#!/bin/sh
# usage: tools/trypatch.sh <patch.diff> <PROP>...   -- applies the patch to a scratch worktree of /repo HEAD and runs the checks against it
P=$(realpath "$1"); shift
D=$(mktemp -d)
trap 'git -C /repo worktree remove --force "$D/repo" >/dev/null 2>&1; rm -rf "$D"' EXIT
git -C /repo worktree add --detach "$D/repo" HEAD -q || exit 3
(cd "$D/repo" && git apply -3 --whitespace=nowarn "$P" 2>"$D/apply.err") || { echo "PATCH DOES NOT APPLY"; cat "$D/apply.err"; exit 3; }
rc=0
for prop in "$@"; do
  REPO="$D/repo" VERIF_WORK="$D/work" VERIF_EVIDENCE_DIR="$D/ev" "$(dirname "$0")/../check" "$prop" || rc=$?
done
exit $rc
