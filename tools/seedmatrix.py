#!/usr/bin/env python3
"""Runs checks against every seeded breaking change (each in its own scratch worktree of /repo HEAD).
usage: tools/seedmatrix.py [--all] [--jobs N] [seed ...]
 default: each seed against its own property's check; --all: against every check in MANIFEST.json"""
import json, os, subprocess, sys, tempfile, shutil
from concurrent.futures import ThreadPoolExecutor
HERE = os.path.dirname(os.path.dirname(os.path.abspath(__file__)))


def run_seed(args):
    sys.path.insert(0, HERE)
    from sa import scratch
    seed, props = args
    patch = os.path.join(HERE, SEEDDIR, seed, "patch.diff")
    res = {}
    try:
        d, wt = scratch.make(patch)
    except Exception as e:
        return seed, {"_apply": "FAILED: %s" % e}
    try:
        for p in props:
            env = dict(os.environ, REPO=wt, VERIF_WORK=os.path.join(d, "work"), VERIF_EVIDENCE_DIR=os.path.join(d, "ev"))
            r = subprocess.run([os.path.join(HERE, "check"), p], capture_output=True, text=True, env=env, cwd=HERE)
            rules = sorted({l.split(" at ")[0].replace("  rule ", "").strip() for l in r.stdout.splitlines() if l.startswith("  rule ")})
            res[p] = {"rc": r.returncode, "rules": rules, "err": r.stderr[-300:] if r.returncode == 2 else ""}
    finally:
        scratch.remove(d)
    return seed, res


SEEDDIR = "seeded"


def main():
    global SEEDDIR
    argv = sys.argv[1:]
    if "--benign" in argv:
        SEEDDIR = "benign"
        argv = [a for a in argv if a != "--benign"] + ["--all"]
    only = None
    if "--props" in argv:
        only = argv[argv.index("--props") + 1].split(",")
        del argv[argv.index("--props"):argv.index("--props") + 2]
    allp = "--all" in argv
    jobs = 8
    if "--jobs" in argv:
        jobs = int(argv[argv.index("--jobs") + 1])
    seeds = [a for a in argv if not a.startswith("--") and not a.isdigit() and "," not in a]
    if not seeds:
        seeds = sorted(x for x in os.listdir(os.path.join(HERE, SEEDDIR)) if os.path.isdir(os.path.join(HERE, SEEDDIR, x)))
    man = json.load(open(os.path.join(HERE, "MANIFEST.json")))
    props_all = [c["property_id"] for c in man["checks"]]
    if only:
        props_all = [p for p in props_all if p in only]
    tasks = []
    for s in seeds:
        own = json.load(open(os.path.join(HERE, SEEDDIR, s, "meta.json"))).get("property", s.split("-")[0])
        tasks.append((s, props_all if allp else [own]))
    out = {}
    with ThreadPoolExecutor(max_workers=jobs) as ex:
        for seed, res in ex.map(run_seed, tasks):
            out[seed] = res
            own = seed.split("-")[0]
            caught = [p for p, v in res.items() if isinstance(v, dict) and v.get("rc") == 1]
            broken = [p for p, v in res.items() if isinstance(v, dict) and v.get("rc") == 2]
            print("%-8s own=%s caught_by=%s%s %s" % (seed, "CAUGHT" if own in caught else "MISSED", ",".join(caught) or "-",
                                                   (" BROKEN=" + ",".join(broken)) if broken else "",
                                                   "; ".join("%s:%s" % (p, ",".join(res[p]["rules"][:4])) for p in caught[:3])), flush=True)
    path = os.path.join(HERE, SEEDDIR, "matrix-all.json" if allp else "matrix-own.json")
    merged = {}
    if os.path.exists(path):
        try:
            merged = json.load(open(path))
        except Exception:
            merged = {}
    for seed, res in out.items():
        merged.setdefault(seed, {}).update(res)      # partial runs (some seeds, some properties) refresh their entries only
    json.dump(merged, open(path, "w"), indent=1, sort_keys=True)


main()
